/-
  C07 — Regular coordinates honour region, spacing, shape and registration.
  Property theorems only (helpers live in Lemmas/).  All statements are about the
  executable model in Model/Coords.lean, for every rational input (no bound on sizes).
-/
import VerdeModel.Gen.GridCoords
import VerdeModel.Lemmas.Coords
import VerdeModel.Gen.Coords
import Mathlib.Analysis.SpecialFunctions.Complex.Arg
namespace Verde.C07
open Verde

/-! ### Bridge: `spacing_to_size` as regenerated from /repo's source text on every run equals the model's. -/
theorem gen_spacing_to_size_region (s t sp : Rat) :
    Gen.spacingToSize s t sp "region" = .ok (spacingToSize s t sp true) := by
  unfold Gen.spacingToSize spacingToSize
  have h1 : (["spacing", "region"].contains "region") = true := by decide
  simp only [h1, not_true_eq_false, if_false, if_true]
  congr 1
  simp only [Prod.mk.injEq, true_and]
  split_ifs <;> push_cast <;> ring
theorem gen_spacing_to_size_spacing (s t sp : Rat) :
    Gen.spacingToSize s t sp "spacing" = .ok (spacingToSize s t sp false) := by
  unfold Gen.spacingToSize spacingToSize
  have h2 : ¬ ("spacing" = "region") := by decide
  simp [h2]
theorem gen_spacing_to_size_bad_adjust (s t sp : Rat) (adj : String) (h1 : adj ≠ "spacing") (h2 : adj ≠ "region") :
    Gen.spacingToSize s t sp adj = .error .valueError := by
  unfold Gen.spacingToSize
  simp [h1, h2]

/-- The model's `Adjust` value a Python `adjust` string stands for. -/
def adjOf (s : String) : Adjust := if s = "spacing" then .spacing else if s = "region" then .region else .bad

theorem pixelShift_eq_inline (vals : List Rat) :
    pixelShift vals = (do
      let t1 ← idxE vals 1
      let t0 ← idxE vals 0
      pure (vals.dropLast.map (fun v => v + ((t1 - t0) / 2)))) := by
  unfold pixelShift idxE
  cases h1 : vals[1]? <;> cases h0 : vals[0]? <;> simp [bind, Except.bind, pure, Except.pure]

theorem linspaceE_nat (a b : Rat) (n : Nat) : linspaceE a b (n : Int) = .ok (linspace a b n) := by
  unfold linspaceE
  have : ¬ ((n : Int) < 0) := by omega
  simp [this]
theorem linspaceE_nat_succ (a b : Rat) (n : Nat) : linspaceE a b ((n : Int) + 1) = .ok (linspace a b (n + 1)) := by
  have := linspaceE_nat a b (n + 1)
  push_cast at this
  exact this

/-- **Bridge.**  `line_coordinates` as regenerated STATEMENT BY STATEMENT from /repo's source text on every run (both argument
    guards, the call to the translated `spacing_to_size`, `size + 1` for pixel registration, `np.linspace`, and
    `values[:-1] + (values[1] - values[0]) / 2`) equals the model's `lineCoordinates` for every start/stop, optional size,
    optional spacing, adjust string and registration — including which error is raised. -/
theorem gen_line_coordinates_eq_model (start stop : Rat) (size : Option Nat) (spacing : Option Rat) (adj : String) (pixel : Bool) :
    Gen.lineCoordinates start stop (size.map Int.ofNat) spacing adj pixel
      = lineCoordinates start stop size spacing (adjOf adj) pixel := by
  unfold Gen.lineCoordinates lineCoordinates
  have e1 : (Adjust.spacing == Adjust.region) = false := by decide
  have e2 : (Adjust.region == Adjust.region) = true := by decide
  cases size with
  | none =>
    cases spacing with
    | none => simp [bind, Except.bind, throw, throwThe, MonadExceptOf.throw]
    | some sp =>
      by_cases h1 : adj = "spacing"
      · subst h1
        simp only [adjOf, if_true]
        rw [gen_spacing_to_size_spacing]
        cases pixel <;> simp [bind, Except.bind, pure, Except.pure, optGet, linspaceE, pixelShift_eq_inline, e1, e2] <;>
          split_ifs <;> try simp [bind, Except.bind, pure, Except.pure]
      · by_cases h2 : adj = "region"
        · subst h2
          simp only [adjOf, h1, if_false, if_true]
          rw [gen_spacing_to_size_region]
          cases pixel <;> simp [bind, Except.bind, pure, Except.pure, optGet, linspaceE, pixelShift_eq_inline, e1, e2] <;>
            split_ifs <;> try simp [bind, Except.bind, pure, Except.pure]
        · simp only [adjOf, h1, h2, if_false]
          rw [gen_spacing_to_size_bad_adjust _ _ _ _ h1 h2]
          simp [bind, Except.bind, throw, throwThe, MonadExceptOf.throw]
  | some n =>
    cases spacing with
    | some sp => simp [bind, Except.bind, throw, throwThe, MonadExceptOf.throw]
    | none =>
      cases pixel <;> simp [bind, Except.bind, pure, Except.pure, optGet, linspaceE_nat, linspaceE_nat_succ, pixelShift_eq_inline]

private theorem checkRegion4_eq (w e s n : Rat) :
    Gen.checkRegion4 w e s n = (checkRegion [w, e, s, n]).map (fun _ => ()) := by
  unfold Gen.checkRegion4 checkRegion
  by_cases h1 : w > e
  · simp [h1, Except.map]
  · by_cases h2 : s > n
    · simp [h1, h2, Except.map]
    · simp [h1, h2, Except.map]

theorem gen_lc_some (a b : Rat) (k : Nat) (adj : String) (pixel : Bool) :
    Gen.lineCoordinates a b (some (k : Int)) none adj pixel = lineCoordinates a b (some k) none (adjOf adj) pixel :=
  gen_line_coordinates_eq_model a b (some k) none adj pixel
theorem gen_lc_none (a b : Rat) (sp : Rat) (adj : String) (pixel : Bool) :
    Gen.lineCoordinates a b none (some sp) adj pixel = lineCoordinates a b none (some sp) (adjOf adj) pixel :=
  gen_line_coordinates_eq_model a b none (some sp) adj pixel

/-- **Bridge.**  The core of `grid_coordinates` (everything up to `coordinates = [east, north]`) as regenerated STATEMENT BY
    STATEMENT from /repo's source text on every run — the call to the translated `check_region`, both shape/spacing guards,
    `shape = (None, None)`, `np.atleast_1d(spacing)`, the one-value → two-values rule, the more-than-two-values error, and the two
    keyword calls to the translated `line_coordinates` with `shape[1]`/`spacing[1]` for east and `shape[0]`/`spacing[0]` for
    north — equals the model's `gridLines` for every region, optional shape, optional spacing list, adjust string and
    registration, including which error is raised (an empty spacing array is an `IndexError` in both). -/
theorem gen_grid_lines_eq_model (w e s n : Rat) (shape : Option (Nat × Nat)) (spacing : Option (List Rat)) (adj : String)
    (pixel : Bool) :
    Gen.gridLines w e s n (shape.map fun p => ((p.1 : Int), (p.2 : Int))) spacing adj pixel
      = gridLines [w, e, s, n] ⟨shape, spacing, adjOf adj, pixel⟩ := by
  unfold Gen.gridLines gridLines
  rw [checkRegion4_eq]
  unfold checkRegion
  by_cases h1 : w > e
  · simp [h1, Except.map, bind, Except.bind]
  by_cases h2 : s > n
  · simp [h1, h2, Except.map, bind, Except.bind]
  simp only [h1, h2, if_false, Except.map, bind, Except.bind]
  cases shape with
  | none =>
    cases spacing with
    | none => simp [throw, throwThe, MonadExceptOf.throw]
    | some sp =>
      match sp with
      | [] => simp [optGet, idxO, pure, Except.pure, bind, Except.bind]
      | [a] => 
        simp [optGet, idxO, idxE, pure, Except.pure, gen_lc_none]
      | [a, b] => 
        simp [optGet, idxO, idxE, pure, Except.pure, bind, Except.bind, gen_lc_none]
      | a :: b :: c :: r => simp [optGet, throw, throwThe, MonadExceptOf.throw, pure, Except.pure, bind, Except.bind]
  | some p =>
    obtain ⟨nn, ne⟩ := p
    cases spacing with
    | some sp => simp [throw, throwThe, MonadExceptOf.throw]
    | none =>
      simp [optGet, idxO, pure, Except.pure, bind, Except.bind, gen_lc_some]

/-- `round` is nearest-integer with ties to even. -/
theorem round_nearest (q : Rat) : |(roundHalfEven q : Rat) - q| ≤ 1/2 := roundHalfEven_near q
theorem round_ties_to_even (q : Rat) (h : q - (q.floor : Rat) = 1/2) : roundHalfEven q % 2 = 0 :=
  roundHalfEven_tie_even q h

/-- The number of intervals is the integer nearest to extent/spacing, but at least one. -/
theorem interval_count (start stop sp : Rat) :
    (intervals start stop sp : Int) = max 1 (roundHalfEven ((stop - start) / sp)) := by
  unfold intervals; omega

/-- **Normal form, spacing given.**  For every `start ≤ stop`, `spacing > 0`, either adjust mode and either
    registration, `line_coordinates` returns the evenly spaced nodes from `start` with `intervals` intervals;
    the step is the requested spacing for `adjust='region'` and `extent/intervals` for `adjust='spacing'`. -/
theorem line_spacing_normal_form (start stop sp : Rat) (hsp : 0 < sp) (hle : start ≤ stop)
    (adj : Adjust) (hadj : adj ≠ .bad) (pixel : Bool) :
    lineCoordinates start stop none (some sp) adj pixel =
      .ok (nodes start (if adj = .region then sp else (stop - start) / (intervals start stop sp : Rat))
            (intervals start stop sp) pixel) := by
  have hm := intervals_pos start stop sp
  have hm0 : ((intervals start stop sp : Nat) : Rat) ≠ 0 := by
    have : (0 : Rat) < (intervals start stop sp : Rat) := by exact_mod_cast hm
    exact ne_of_gt this
  have key : ∀ b : Bool, lineCoordinates start stop none (some sp) (if b then .region else .spacing) pixel =
      .ok (nodes start (if b then sp else (stop - start) / (intervals start stop sp : Rat))
            (intervals start stop sp) pixel) := by
    intro b
    have h1 := spacingToSize_fst start stop sp b hsp hle
    have h2 := spacingToSize_snd start stop sp b hsp hle
    rcases hs : spacingToSize start stop sp b with ⟨sz, stop'⟩
    rw [hs] at h1 h2
    simp only [] at h1 h2
    have hlc : lineCoordinates start stop none (some sp) (if b then .region else .spacing) pixel =
        (if sz < 0 then .error .valueError else
          if pixel then pixelShift (linspace start stop' sz.toNat) else .ok (linspace start stop' sz.toNat)) := by
      have e1 : (Adjust.spacing == Adjust.region) = false := rfl
      have e2 : (Adjust.region == Adjust.region) = true := rfl
      unfold lineCoordinates
      cases b <;> simp [hs, e1, e2]
    rw [hlc]
    have hsz : ¬ sz < 0 := by omega
    have htn : sz.toNat = intervals start stop sp + 1 := by omega
    rw [if_neg hsz, htn]
    have hstep : (stop' - start) / (intervals start stop sp : Rat) =
        (if b then sp else (stop - start) / (intervals start stop sp : Rat)) := by
      rw [h2]; cases b
      · simp
      · simp only [if_true]; field_simp; ring
    cases pixel
    · simp only [Bool.false_eq_true, if_false]
      rw [linspace_eq_nodes _ _ _ hm, hstep]
    · simp only [if_true]
      rw [pixelShift_linspace _ _ _ hm, hstep]
  cases adj
  · simpa using key false
  · simpa using key true
  · exact absurd rfl hadj

/-- Node `i` of an evenly spaced line. -/
theorem nodes_gridline_get (start step : Rat) (m i : Nat) (hi : i ≤ m) :
    (nodes start step m false)[i]? = some (start + (i : Rat) * step) := by
  have : i < m + 1 := by omega
  simp [nodes, List.getElem?_map, List.getElem?_range this]

theorem nodes_pixel_get (start step : Rat) (m i : Nat) (hi : i < m) :
    (nodes start step m true)[i]? = some (start + ((i : Rat) + 1/2) * step) := by
  simp [nodes, List.getElem?_map, List.getElem?_range hi]

/-- `adjust='spacing'`: the first node is `start`, the last node is **exactly** `stop`,
    and there are `intervals + 1` nodes. -/
theorem adjust_spacing_hits_both_bounds (start stop sp : Rat) (hsp : 0 < sp) (hle : start ≤ stop) :
    ∃ xs, lineCoordinates start stop none (some sp) .spacing false = .ok xs ∧
      xs.length = intervals start stop sp + 1 ∧ xs[0]? = some start ∧
      xs[intervals start stop sp]? = some stop := by
  refine ⟨_, line_spacing_normal_form start stop sp hsp hle .spacing (by decide) false, ?_, ?_, ?_⟩
  · simp [nodes_length]
  · rw [nodes_gridline_get _ _ _ 0 (Nat.zero_le _)]; simp
  · rw [nodes_gridline_get _ _ _ _ (le_refl _)]
    have hm := intervals_pos start stop sp
    have : ((intervals start stop sp : Nat) : Rat) ≠ 0 := by
      have : (0 : Rat) < (intervals start stop sp : Rat) := by exact_mod_cast hm
      exact ne_of_gt this
    simp only [show (Adjust.spacing = Adjust.region) = False from by simp, if_false]
    congr 1; field_simp; ring

/-- `adjust='region'`: every step equals the requested spacing, the first node is `start`, and only the
    far bound moves, to `start + intervals·spacing`. -/
theorem adjust_region_keeps_spacing (start stop sp : Rat) (hsp : 0 < sp) (hle : start ≤ stop) (i : Nat)
    (hi : i ≤ intervals start stop sp) :
    ∃ xs, lineCoordinates start stop none (some sp) .region false = .ok xs ∧
      xs.length = intervals start stop sp + 1 ∧ xs[i]? = some (start + (i : Rat) * sp) := by
  refine ⟨_, line_spacing_normal_form start stop sp hsp hle .region (by decide) false, ?_, ?_⟩
  · simp [nodes_length]
  · rw [nodes_gridline_get _ _ _ i hi]; simp

/-- `adjust='region'`: the moved bound is within half a spacing of the requested one
    (whenever the extent is at least half a spacing). -/
theorem adjust_region_bound_moves_at_most_half_spacing (start stop sp : Rat) (hsp : 0 < sp)
    (hext : sp / 2 ≤ stop - start) :
    |(start + (intervals start stop sp : Rat) * sp) - stop| ≤ sp / 2 := by
  have hq : 1/2 ≤ (stop - start) / sp := by
    rw [le_div_iff₀ hsp]; linarith
  have hnear := roundHalfEven_near ((stop - start) / sp)
  have hnn := roundHalfEven_nonneg (q := (stop - start) / sp) (by linarith)
  have hext' : stop - start = ((stop - start) / sp) * sp := by field_simp
  set q := (stop - start) / sp with hqdef
  set r := roundHalfEven q with hr
  have hm : ((intervals start stop sp : Nat) : Rat) = ((max 1 r : Int) : Rat) := by
    have := interval_count start stop sp
    rw [← hqdef, ← hr] at this
    exact_mod_cast this
  rw [hm]
  have e : start + ((max 1 r : Int) : Rat) * sp - stop = (((max 1 r : Int) : Rat) - q) * sp := by
    have : stop = start + q * sp := by linarith
    rw [this]; ring
  rw [e, abs_mul, abs_of_pos hsp]
  have hb : |((max 1 r : Int) : Rat) - q| ≤ 1/2 := by
    rcases le_or_gt 1 r with h1 | h0
    · rw [max_eq_right h1]; exact hnear
    · have hr0 : r = 0 := by omega
      rw [max_eq_left (by omega)]
      rw [hr0] at hnear
      rw [abs_le] at hnear ⊢
      push_cast at hnear ⊢
      constructor <;> linarith
  calc |((max 1 r : Int) : Rat) - q| * sp ≤ (1/2) * sp := by
        exact mul_le_mul_of_nonneg_right hb hsp.le
    _ = sp / 2 := by ring

/-- Pixel registration returns the midpoints of consecutive grid-line nodes — one fewer node. -/
theorem pixel_nodes_are_midpoints (start step : Rat) (m i : Nat) (hi : i < m) :
    ∃ a b, (nodes start step m false)[i]? = some a ∧ (nodes start step m false)[i + 1]? = some b ∧
      (nodes start step m true)[i]? = some ((a + b) / 2) ∧
      (nodes start step m true).length + 1 = (nodes start step m false).length := by
  refine ⟨_, _, nodes_gridline_get start step m i (by omega), nodes_gridline_get start step m (i + 1) (by omega), ?_, ?_⟩
  · rw [nodes_pixel_get start step m i hi]; congr 1; push_cast; ring
  · simp [nodes_length]

/-- **Normal form, size given** (grid-line registration, `size ≥ 2`): `size` nodes hitting both bounds. -/
theorem line_size_normal_form (start stop : Rat) (n : Nat) (hn : 2 ≤ n) (adj : Adjust) :
    lineCoordinates start stop (some n) none adj false =
      .ok (nodes start ((stop - start) / ((n - 1 : Nat) : Rat)) (n - 1) false) := by
  obtain ⟨m, rfl⟩ : ∃ m, n = m + 1 := ⟨n - 1, by omega⟩
  have hm : 1 ≤ m := by omega
  simp only [lineCoordinates, Bool.false_eq_true, if_false, Nat.add_sub_cancel]
  rw [linspace_eq_nodes _ _ _ hm]

/-- A single requested node is the start of the interval. -/
theorem line_size_one (start stop : Rat) (adj : Adjust) :
    lineCoordinates start stop (some 1) none adj false = .ok [start] := by
  simp [lineCoordinates, linspace_one]

/-- **Normal form, size given, pixel registration**: exactly `size` midpoints of `size` equal pixels. -/
theorem line_size_pixel_normal_form (start stop : Rat) (n : Nat) (hn : 1 ≤ n) (adj : Adjust) :
    lineCoordinates start stop (some n) none adj true =
      .ok (nodes start ((stop - start) / (n : Rat)) n true) := by
  simp only [lineCoordinates, if_true]
  rw [pixelShift_linspace _ _ _ hn]

theorem pixel_size_count (start stop : Rat) (n : Nat) :
    (nodes start ((stop - start) / (n : Rat)) n true).length = n := by simp [nodes_length]

/-- Every pixel centre lies strictly inside `(start, stop)` when the extent is positive. -/
theorem pixel_nodes_strictly_inside (start stop : Rat) (n i : Nat) (hi : i < n) (hlt : start < stop) :
    start < start + ((i : Rat) + 1/2) * ((stop - start) / (n : Rat)) ∧
    start + ((i : Rat) + 1/2) * ((stop - start) / (n : Rat)) < stop := by
  have hnpos : (0 : Rat) < (n : Rat) := by exact_mod_cast (by omega : 0 < n)
  have hstep : 0 < (stop - start) / (n : Rat) := div_pos (by linarith) hnpos
  have hi' : (i : Rat) + 1 ≤ (n : Rat) := by exact_mod_cast hi
  have hi0 : (0 : Rat) ≤ (i : Rat) := by exact_mod_cast Nat.zero_le i
  constructor
  · have : 0 < ((i : Rat) + 1/2) * ((stop - start) / (n : Rat)) := mul_pos (by linarith) hstep
    linarith
  · have h1 : ((i : Rat) + 1/2) * ((stop - start) / (n : Rat)) < (n : Rat) * ((stop - start) / (n : Rat)) :=
      mul_lt_mul_of_pos_right (by linarith) hstep
    have h2 : (n : Rat) * ((stop - start) / (n : Rat)) = stop - start := by field_simp
    linarith

/-- Both / neither of size and spacing are rejected; an unknown adjust mode is rejected. -/
theorem both_size_and_spacing_rejected (start stop sp : Rat) (n : Nat) (adj : Adjust) (px : Bool) :
    lineCoordinates start stop (some n) (some sp) adj px = .error .valueError := rfl
theorem neither_size_nor_spacing_rejected (start stop : Rat) (adj : Adjust) (px : Bool) :
    lineCoordinates start stop none none adj px = .error .valueError := rfl
theorem bad_adjust_rejected (start stop sp : Rat) (px : Bool) :
    lineCoordinates start stop none (some sp) .bad px = .error .valueError := rfl

/-- Grid orientation: shape `(n_north, n_east)`; easting varies along columns, northing along rows. -/
theorem meshgrid_orientation (east north : List Rat) (i j : Nat) (hi : i < north.length) (hj : j < east.length) :
    (meshgrid east north).1.length = north.length ∧ (meshgrid east north).2.length = north.length ∧
    ((meshgrid east north).1[i]?.bind (·[j]?)) = east[j]? ∧
    ((meshgrid east north).2[i]?.bind (·[j]?)) = north[i]? := by
  simp [meshgrid, List.getElem?_map, List.getElem?_eq_getElem hi, List.getElem?_eq_getElem hj,
    List.getElem?_replicate, hi, hj]

/-- `grid_coordinates` builds easting from `(W, E)` with `shape[1]`/`spacing[1]` and northing from `(S, N)` with
    `shape[0]`/`spacing[0]`; the 2-D arrays are the meshgrid of those lines and extra coordinates are constant. -/
theorem grid_from_lines (region : List Rat) (g : GridSpec) (extra : List Rat) (east north : List Rat)
    (h : gridLines region g = .ok (east, north)) :
    gridCoordinates region g extra =
      .ok ((meshgrid east north).1 :: (meshgrid east north).2 ::
            extra.map fun v => north.map fun _ => east.map fun _ => v) := by
  simp [gridCoordinates, h, bind, Except.bind, pure, Except.pure]

theorem gridLines_shape (w e s n : Rat) (hwe : w ≤ e) (hsn : s ≤ n) (nn ne : Nat) (adj : Adjust) (px : Bool) :
    gridLines [w, e, s, n] ⟨some (nn, ne), none, adj, px⟩ =
      (do let east ← lineCoordinates w e (some ne) none adj px
          let north ← lineCoordinates s n (some nn) none adj px
          pure (east, north)) := by
  simp [gridLines, checkRegion, not_lt.mpr hwe, not_lt.mpr hsn, bind, Except.bind, pure, Except.pure]

theorem gridLines_spacing (w e s n : Rat) (hwe : w ≤ e) (hsn : s ≤ n) (sn se : Rat) (adj : Adjust) (px : Bool) :
    gridLines [w, e, s, n] ⟨none, some [sn, se], adj, px⟩ =
      (do let east ← lineCoordinates w e none (some se) adj px
          let north ← lineCoordinates s n none (some sn) adj px
          pure (east, north)) := by
  simp [gridLines, checkRegion, not_lt.mpr hwe, not_lt.mpr hsn, bind, Except.bind, pure, Except.pure]

theorem gridLines_scalar_spacing (region : List Rat) (sp : Rat) (adj : Adjust) (px : Bool) :
    gridLines region ⟨none, some [sp], adj, px⟩ = gridLines region ⟨none, some [sp, sp], adj, px⟩ := by
  simp [gridLines]

theorem more_than_two_spacings_rejected (w e s n a b c : Rat) (rest : List Rat) (hwe : w ≤ e) (hsn : s ≤ n)
    (adj : Adjust) (px : Bool) :
    gridLines [w, e, s, n] ⟨none, some (a :: b :: c :: rest), adj, px⟩ = .error .valueError := by
  simp [gridLines, checkRegion, not_lt.mpr hwe, not_lt.mpr hsn, bind, Except.bind]

theorem grid_shape_and_spacing_rejected (w e s n : Rat) (hwe : w ≤ e) (hsn : s ≤ n) (sh : Nat × Nat)
    (sp : List Rat) (adj : Adjust) (px : Bool) :
    gridLines [w, e, s, n] ⟨some sh, some sp, adj, px⟩ = .error .valueError := by
  simp [gridLines, checkRegion, not_lt.mpr hwe, not_lt.mpr hsn, bind, Except.bind]

theorem grid_invalid_region_rejected (w e s n : Rat) (h : e < w ∨ n < s) (g : GridSpec) :
    gridLines [w, e, s, n] g = .error .valueError := by
  rcases h with h | h
  · simp [gridLines, checkRegion, h, bind, Except.bind]
  · by_cases hwe : e < w
    · simp [gridLines, checkRegion, hwe, bind, Except.bind]
    · simp [gridLines, checkRegion, hwe, h, bind, Except.bind]

/-- `shape_to_spacing` inverts the shape: a spacing of `extent/(n-1)` gives back `n` nodes ending at `stop`. -/
theorem shape_to_spacing_inverts (start stop : Rat) (n : Nat) (hn : 2 ≤ n) (hlt : start < stop) :
    intervals start stop ((stop - start) / ((n : Rat) - 1)) = n - 1 := by
  have hn1 : (0 : Rat) < (n : Rat) - 1 := by
    have : (2 : Rat) ≤ (n : Rat) := by exact_mod_cast hn
    linarith
  have hq : (stop - start) / ((stop - start) / ((n : Rat) - 1)) = (((n - 1 : Nat) : Int) : Rat) := by
    have hne : stop - start ≠ 0 := by linarith
    rw [div_div_eq_mul_div, mul_comm, mul_div_assoc, div_self hne, mul_one]
    push_cast [Nat.cast_sub (by omega : 1 ≤ n)]
    ring
  unfold intervals
  rw [hq, roundHalfEven_int]
  omega

theorem shape_to_spacing_pixel_inverts (start stop : Rat) (n : Nat) (hn : 1 ≤ n) (hlt : start < stop) :
    intervals start stop ((stop - start) / (n : Rat)) = n := by
  have hq : (stop - start) / ((stop - start) / (n : Rat)) = ((n : Int) : Rat) := by
    have hne : stop - start ≠ 0 := by linarith
    rw [div_div_eq_mul_div, mul_comm, mul_div_assoc, div_self hne, mul_one]
    simp
  unfold intervals
  rw [hq, roundHalfEven_int]
  omega

theorem shapeToSpacing_eq (r : Region) (nn ne : Nat) (hnn : 2 ≤ nn) (hne : 2 ≤ ne) :
    shapeToSpacing r (nn, ne) false = some ((r.n - r.s) / ((nn : Rat) - 1), (r.e - r.w) / ((ne : Rat) - 1)) := by
  unfold shapeToSpacing
  have h1 : ¬ ((nn : Int) - 1 = 0 ∨ (ne : Int) - 1 = 0) := by omega
  simp only [Bool.false_eq_true, if_false, h1]
  push_cast; rfl

/-- Bridge: `shape_to_spacing` as regenerated from /repo's source text (the unrolled loop over the reversed shape) equals the
    model's, whenever the model is defined (no division by zero). -/
theorem gen_shape_to_spacing_eq_model (r : Region) (shape : Nat × Nat) (pixel : Bool) (sn se : Rat)
    (h : shapeToSpacing r shape pixel = some (sn, se)) :
    Gen.shapeToSpacing r.w r.e r.s r.n (shape.1 : Int) (shape.2 : Int) pixel = (sn, se) := by
  unfold shapeToSpacing at h
  unfold Gen.shapeToSpacing
  cases pixel <;> simp at h ⊢ <;> (obtain ⟨_, h1, h2⟩ := h; simp [← h1, ← h2])

/-- Profile points are evenly spaced on the segment: point `t` is `p1 + t/(size-1)·(p2-p1)`,
    with squared distance `(t/(size-1))²·|p2-p1|²` from the first point. -/
theorem profile_even (p1 p2 : Rat × Rat) (n t : Nat) (hn : 2 ≤ n) (ht : t < n) :
    ∃ pts, profilePoints p1 p2 (n : Int) = .ok pts ∧ pts.length = n ∧
      pts[t]? = some (p1.1 + ((t : Rat) / ((n : Rat) - 1)) * (p2.1 - p1.1),
                      p1.2 + ((t : Rat) / ((n : Rat) - 1)) * (p2.2 - p1.2),
                      ((t : Rat) / ((n : Rat) - 1)) * ((t : Rat) / ((n : Rat) - 1)) *
                        ((p2.1 - p1.1) * (p2.1 - p1.1) + (p2.2 - p1.2) * (p2.2 - p1.2))) := by
  have hpos : ¬ ((n : Int) ≤ 0) := by omega
  have hn1 : n ≠ 1 := by omega
  refine ⟨_, by simp only [profilePoints, hpos, if_false]; rfl, by simp, ?_⟩
  simp [List.getElem?_map, List.getElem?_range ht, hn1]

theorem profile_endpoints (p1 p2 : Rat × Rat) (n : Nat) (hn : 2 ≤ n) :
    ∃ pts, profilePoints p1 p2 (n : Int) = .ok pts ∧
      (pts[0]?.map fun p => (p.1, p.2.1)) = some p1 ∧ (pts[n - 1]?.map fun p => (p.1, p.2.1)) = some p2 := by
  obtain ⟨pts, h, _, h0⟩ := profile_even p1 p2 n 0 hn (by omega)
  obtain ⟨pts', h', _, hl⟩ := profile_even p1 p2 n (n - 1) hn (by omega)
  rw [h] at h'; cases h'
  refine ⟨pts, h, ?_, ?_⟩
  · rw [h0]; simp
  · rw [hl]
    have hn1 : (n : Rat) - 1 ≠ 0 := by
      have : (2 : Rat) ≤ (n : Rat) := by exact_mod_cast hn
      intro h; linarith
    have : ((n - 1 : Nat) : Rat) / ((n : Rat) - 1) = 1 := by
      rw [Nat.cast_sub (by omega : 1 ≤ n)]; push_cast; exact div_self hn1
    simp [this]

/-- **The code's trigonometric form equals the model's algebraic form** (over ℝ).  `profile_coordinates` computes
    `separation = hypot(dx, dy)`, `angle = arctan2(dy, dx)` (= `Complex.arg (dx + i·dy)`, also at `dx = dy = 0`) and places
    point `t` at `p1 + distance_t·(cos angle, sin angle)` with `distance_t = f·separation`, `f = t/(size−1)`; this is
    `p1 + f·(dx, dy)`, the form `profilePoints` uses — for every segment, including degenerate and axis-parallel ones. -/
theorem profile_trig_eq_algebraic (dx dy f : ℝ) :
    (f * Real.sqrt (dx ^ 2 + dy ^ 2)) * Real.cos (Complex.arg ⟨dx, dy⟩) = f * dx ∧
    (f * Real.sqrt (dx ^ 2 + dy ^ 2)) * Real.sin (Complex.arg ⟨dx, dy⟩) = f * dy := by
  have hnorm : ‖(⟨dx, dy⟩ : ℂ)‖ = Real.sqrt (dx ^ 2 + dy ^ 2) := by
    rw [Complex.norm_def, Complex.normSq_mk]; congr 1; ring
  by_cases hz : (⟨dx, dy⟩ : ℂ) = 0
  · have hx : dx = 0 := by simpa using congrArg Complex.re hz
    have hy : dy = 0 := by simpa using congrArg Complex.im hz
    subst hx; subst hy; simp
  · have hpos : 0 < Real.sqrt (dx ^ 2 + dy ^ 2) := by rw [← hnorm]; exact norm_pos_iff.mpr hz
    rw [Complex.cos_arg hz, Complex.sin_arg, hnorm]
    constructor <;> field_simp

theorem profile_nonpositive_size_rejected (p1 p2 : Rat × Rat) (n : Int) (h : n ≤ 0) :
    profilePoints p1 p2 n = .error .valueError := by simp [profilePoints, h]

/-! Non-vacuity: concrete inputs meeting the hypotheses. -/
example : lineCoordinates 0 10 none (some (5/2)) .spacing false = .ok [0, 5/2, 5, 15/2, 10] := by decide +kernel
example : lineCoordinates 0 7 none (some 2) .region true = .ok [1, 3, 5, 7] := by decide +kernel
example : intervals 0 7 2 = 4 ∧ intervals 0 5 2 = 2 ∧ intervals 0 1 5 = 1 := by decide +kernel

/-! ### The regenerated source satisfies the property
    (the property theorems above, transported along the bridges to the definitions translated from /repo's source on this run) -/

theorem adjOf_spacing : adjOf "spacing" = .spacing := by decide
theorem adjOf_region : adjOf "region" = .region := by decide

/-- The translated `line_coordinates`, spacing given: evenly spaced nodes from `start`, `intervals` of them, with the requested spacing for
    `adjust="region"` and `extent/intervals` for `adjust="spacing"`; midpoints for pixel registration. -/
theorem src_line_spacing_normal_form (start stop sp : Rat) (hsp : 0 < sp) (hle : start ≤ stop) (pixel : Bool) :
    Gen.lineCoordinates start stop none (some sp) "spacing" pixel
        = .ok (nodes start ((stop - start) / (intervals start stop sp : Rat)) (intervals start stop sp) pixel) ∧
    Gen.lineCoordinates start stop none (some sp) "region" pixel
        = .ok (nodes start sp (intervals start stop sp) pixel) := by
  constructor
  · rw [gen_lc_none, adjOf_spacing, line_spacing_normal_form start stop sp hsp hle .spacing (by decide) pixel]
    simp
  · rw [gen_lc_none, adjOf_region, line_spacing_normal_form start stop sp hsp hle .region (by decide) pixel]
    simp

/-- The translated `line_coordinates`, size given: `size` nodes hitting both bounds / `size` pixel midpoints. -/
theorem src_line_size_normal_form (start stop : Rat) (n : Nat) (adj : String) :
    (2 ≤ n → Gen.lineCoordinates start stop (some (n : Int)) none adj false
        = .ok (nodes start ((stop - start) / ((n - 1 : Nat) : Rat)) (n - 1) false)) ∧
    (1 ≤ n → Gen.lineCoordinates start stop (some (n : Int)) none adj true
        = .ok (nodes start ((stop - start) / (n : Rat)) n true)) := by
  constructor
  · intro hn; rw [gen_lc_some, line_size_normal_form start stop n hn]
  · intro hn; rw [gen_lc_some, line_size_pixel_normal_form start stop n hn]

/-- The translated `line_coordinates` rejects both / neither of size and spacing and an unknown `adjust`. -/
theorem src_line_rejects (start stop sp : Rat) (n : Nat) (adj : String) (px : Bool) :
    Gen.lineCoordinates start stop (some (n : Int)) (some sp) adj px = .error .valueError ∧
    Gen.lineCoordinates start stop none none adj px = .error .valueError ∧
    (adj ≠ "spacing" → adj ≠ "region" → Gen.lineCoordinates start stop none (some sp) adj px = .error .valueError) := by
  refine ⟨?_, ?_, ?_⟩
  · have := gen_line_coordinates_eq_model start stop (some n) (some sp) adj px
    simp only [Option.map] at this
    exact this.trans (both_size_and_spacing_rejected start stop sp n (adjOf adj) px)
  · have := gen_line_coordinates_eq_model start stop none none adj px
    simp only [Option.map] at this
    rw [this, neither_size_nor_spacing_rejected]
  · intro h1 h2
    rw [gen_lc_none]
    have : adjOf adj = .bad := by simp [adjOf, h1, h2]
    rw [this, bad_adjust_rejected]

/-- The translated `grid_coordinates` core: easting from (W, E) with `shape[1]` / `spacing[1]`, northing from (S, N) with `shape[0]` / `spacing[0]`. -/
theorem src_grid_lines (w e s n : Rat) (hwe : w ≤ e) (hsn : s ≤ n) (adj : String) (px : Bool) :
    (∀ nn ne : Nat, Gen.gridLines w e s n (some ((nn : Int), (ne : Int))) none adj px =
      (do let east ← lineCoordinates w e (some ne) none (adjOf adj) px
          let north ← lineCoordinates s n (some nn) none (adjOf adj) px
          pure (east, north))) ∧
    (∀ sn se : Rat, Gen.gridLines w e s n none (some [sn, se]) adj px =
      (do let east ← lineCoordinates w e none (some se) (adjOf adj) px
          let north ← lineCoordinates s n none (some sn) (adjOf adj) px
          pure (east, north))) := by
  constructor
  · intro nn ne
    have := gen_grid_lines_eq_model w e s n (some (nn, ne)) none adj px
    simp only [Option.map] at this
    rw [this, gridLines_shape w e s n hwe hsn]
  · intro sn se
    have := gen_grid_lines_eq_model w e s n none (some [sn, se]) adj px
    simp only [Option.map] at this
    rw [this, gridLines_spacing w e s n hwe hsn]


/-! ## `grid_coordinates` as a whole, regenerated from the source (Gen/GridCoords.lean) -/

/-- **Bridge.**  `grid_coordinates` as a whole, regenerated from the source, in its default `meshgrid=True` form: the model's `gridCoordinates` —
    the meshgrid of the two lines (rows = northing, columns = easting) followed by one constant array per extra coordinate. -/
theorem gen_grid_coordinates_eq_model (w e s n : Rat) (shape : Option (Nat × Nat)) (spacing : Option (List Rat)) (adj : String) (pixel : Bool)
    (extra : List Rat) :
    Gen.gridCoordinates w e s n (shape.map fun p => ((p.1 : Int), (p.2 : Int))) spacing adj pixel true (some extra)
      = (gridCoordinates [w, e, s, n] ⟨shape, spacing, adjOf adj, pixel⟩ extra).map Sum.inr := by
  unfold Gen.gridCoordinates gridCoordinates
  rw [gen_grid_lines_eq_model]
  cases gridLines [w, e, s, n] ⟨shape, spacing, adjOf adj, pixel⟩ with
  | error er => rfl
  | ok l =>
    obtain ⟨east, north⟩ := l
    simp [bind, Except.bind, pure, Except.pure, Except.map, meshgrid]

/-- `meshgrid=False`: the two lines themselves; extra coordinates are then refused. -/
theorem gen_grid_coordinates_lines (w e s n : Rat) (shape : Option (Nat × Nat)) (spacing : Option (List Rat)) (adj : String) (pixel : Bool)
    (extra : Option (List Rat)) :
    Gen.gridCoordinates w e s n (shape.map fun p => ((p.1 : Int), (p.2 : Int))) spacing adj pixel false extra
      = (gridLines [w, e, s, n] ⟨shape, spacing, adjOf adj, pixel⟩).bind fun l =>
          match extra with | none => .ok (.inl [l.1, l.2]) | some _ => .error .valueError := by
  unfold Gen.gridCoordinates
  rw [gen_grid_lines_eq_model]
  cases gridLines [w, e, s, n] ⟨shape, spacing, adjOf adj, pixel⟩ with
  | error er => rfl
  | ok l =>
    obtain ⟨east, north⟩ := l
    cases extra <;> rfl

end Verde.C07
