/-
  C20 — Calls are pure, repeatable, history-free and reject inconsistent input.
  "No function modifies the arrays it is given" and "repeating a call returns identical results" are facts about Python objects /
  determinism of the runtime: every model function is a pure function (so they hold in the model by construction) and the
  harness OBSERVES them on the implementation (bytes before/after, read-only inputs, two runs).  Proved here: the life-cycle
  state machine (refit = fresh, VectorSpline2D's documented memory, clone, predict-before-fit) and the acceptance condition
  of check_fit_input.  shape-xor-spacing and invalid regions: `C07.both_size_and_spacing_rejected`,
  `C07.grid_shape_and_spacing_rejected`, `C13.check_region_accepts_iff`, `C14.neither_shape_nor_spacing_rejected`.
-/
import VerdeModel.Gen.Base
import VerdeModel.Model.Lifecycle
import VerdeModel.Lemmas.Num
namespace Verde.C20
open Verde

/-- **History-freedom.**  For an ordinary estimator (fit does not touch the parameters), after ANY history of operations a
    final `fit d` leaves exactly the state of a fresh estimator (same parameters) fitted to `d`. -/
theorem refit_is_fresh {π σ : Type} (fit : π → Rows → σ) (predict : σ → List (List Rat) → Data)
    (p : π) (history : List (LifeOp π)) (hp : ∀ op ∈ history, ∀ p', op ≠ LifeOp.setParams p') (d : Rows) :
    (lifeRun (plainClass fit predict) ⟨p, none⟩ (history ++ [LifeOp.fit d])).fitted = some (fit p d) ∧
    (lifeRun (plainClass fit predict) ⟨p, none⟩ (history ++ [LifeOp.fit d])).params = p := by
  have hparams : ∀ (ops : List (LifeOp π)) (s : EstState π σ), (∀ op ∈ ops, ∀ p', op ≠ LifeOp.setParams p') →
      (lifeRun (plainClass fit predict) s ops).params = s.params := by
    intro ops
    induction ops with
    | nil => intro s _; rfl
    | cons op ops ih =>
      intro s h
      simp only [lifeRun, List.foldl_cons]
      have hop := h op List.mem_cons_self
      have := ih (lifeStep (plainClass fit predict) s op) (fun o ho => h o (List.mem_cons_of_mem _ ho))
      simp only [lifeRun] at this
      rw [this]
      cases op with
      | fit r => rfl
      | clone => rfl
      | setParams p' => exact absurd rfl (hop p')
      | predict q => rfl
  have hp' := hparams history ⟨p, none⟩ hp
  simp only [lifeRun, List.foldl_append, List.foldl_cons, List.foldl_nil] at hp' ⊢
  simp only [lifeStep, plainClass] at hp' ⊢
  rw [hp']
  exact ⟨rfl, rfl⟩

/-- **VectorSpline2D's documented memory.**  With `force_coords=None`, after fits on `d₁, d₂, …, d_k` the force coordinates
    are those of the FIRST fit and the fitted state is that of an estimator constructed with those force coordinates and fitted
    to the latest data — the only way history matters. -/
theorem vs2d_force_coords_from_first_fit {σ : Type} (fit : Option (List (List Rat)) → Rows → σ)
    (predict : σ → List (List Rat) → Data) (d₁ : Rows) (rest : List Rows) :
    let final := lifeRun (vs2dClass fit predict) ⟨none, none⟩ ((d₁ :: rest).map LifeOp.fit)
    final.params = some (d₁.coords.take 2) ∧
    final.fitted = some (fit (some (d₁.coords.take 2)) ((d₁ :: rest).getLast (by simp))) := by
  have key : ∀ (ds : List Rows) (c : List (List Rat)) (st : Option σ) (last : Rows), st = some (fit (some c) last) →
      (lifeRun (vs2dClass fit predict) ⟨some c, st⟩ (ds.map LifeOp.fit)).params = some c ∧
      (lifeRun (vs2dClass fit predict) ⟨some c, st⟩ (ds.map LifeOp.fit)).fitted =
        some (fit (some c) ((last :: ds).getLast (by simp))) := by
    intro ds
    induction ds with
    | nil => intro c st last h; exact ⟨rfl, by simpa [lifeRun] using h⟩
    | cons d ds ih =>
      intro c st last _
      simp only [List.map_cons, lifeRun, List.foldl_cons]
      have := ih c (some (fit (some c) d)) d rfl
      simp only [lifeRun] at this
      have hstep : lifeStep (vs2dClass fit predict) ⟨some c, st⟩ (LifeOp.fit d) = ⟨some c, some (fit (some c) d)⟩ := rfl
      rw [hstep]
      refine ⟨this.1, ?_⟩
      rw [this.2]
      simp [List.getLast_cons]
  intro final
  have hfirst : lifeStep (vs2dClass fit predict) ⟨none, none⟩ (LifeOp.fit d₁) =
      ⟨some (d₁.coords.take 2), some (fit (some (d₁.coords.take 2)) d₁)⟩ := rfl
  have := key rest (d₁.coords.take 2) (some (fit (some (d₁.coords.take 2)) d₁)) d₁ rfl
  simp only [final, List.map_cons, lifeRun, List.foldl_cons, hfirst]
  simp only [lifeRun] at this
  exact this

/-- `clone` keeps the parameters and forgets the fit: a clone behaves like a fresh estimator with the same parameters. -/
theorem clone_same_behaviour {π σ : Type} (E : EstClass π σ) (s : EstState π σ) (ops : List (LifeOp π)) :
    lifeRun E (lifeStep E s LifeOp.clone) ops = lifeRun E ⟨s.params, none⟩ ops := rfl

/-- `get_params` / `set_params` round trip leaves the estimator unchanged. -/
theorem set_get_params_roundtrip {π σ : Type} (E : EstClass π σ) (s : EstState π σ) :
    lifeStep E s (LifeOp.setParams s.params) = s := by cases s; rfl

/-- Predicting before fitting is an error; after a fit it is the fitted model's prediction. -/
theorem predict_unfitted_errors {π σ : Type} (E : EstClass π σ) (p : π) (q : List (List Rat)) :
    lifePredict E ⟨p, none⟩ q = .error .notFitted ∧
    lifePredict E (lifeStep E ⟨p, none⟩ LifeOp.clone) q = .error .notFitted := ⟨rfl, rfl⟩

theorem predict_after_fit {π σ : Type} (E : EstClass π σ) (s : EstState π σ) (d : Rows) (q : List (List Rat)) :
    lifePredict E (lifeStep E s (LifeOp.fit d)) q =
      .ok (E.predict (E.fit (E.paramsAfterFit s.params d) d) q) := rfl

/-- `predict` does not change the estimator. -/
theorem predict_is_pure {π σ : Type} (E : EstClass π σ) (s : EstState π σ) (q : List (List Rat)) :
    lifeStep E s (LifeOp.predict q) = s := rfl

/-- **check_fit_input accepts iff** all coordinate shapes are equal, every data shape equals them, and — when weights are given (a
    non-empty tuple) — there is one weight array per data component, each with the data's number of elements. -/
theorem check_fit_input_accepts_iff (c0 : Shape) (cs data : List Shape) (weights : Option (List Shape)) :
    checkFitInput (c0 :: cs) data weights = .ok () ↔
      (∀ c ∈ cs, c = c0) ∧ (∀ d ∈ data, d = c0) ∧
      (∀ ws, weights = some ws → ws ≠ [] → ws.length = data.length ∧ ∀ w ∈ ws, ∀ d ∈ data, shapeSize w = shapeSize d) := by
  unfold checkFitInput
  by_cases h1 : ∀ c ∈ cs, c = c0
  · have h1' : (cs.all fun c => c == c0) = true := by simpa [List.all_eq_true] using h1
    by_cases h2 : ∀ d ∈ data, d = c0
    · have h2' : (data.all fun d => d == c0) = true := by simpa [List.all_eq_true] using h2
      simp only [h1', h2', Bool.not_true, Bool.false_eq_true, if_false]
      cases weights with
      | none => exact ⟨fun _ => ⟨h1, h2, fun ws h => by cases h⟩, fun _ => rfl⟩
      | some ws =>
        by_cases hE : ws = []
        · subst hE
          exact ⟨fun _ => ⟨h1, h2, fun ws' hws hne => by cases hws; exact absurd rfl hne⟩, fun _ => rfl⟩
        have hE' : ws.isEmpty = false := by cases ws <;> simp_all
        simp only [hE', Bool.false_eq_true, if_false]
        by_cases h3 : ws.length = data.length
        · by_cases h4 : ∀ w ∈ ws, ∀ d ∈ data, shapeSize w = shapeSize d
          · have h4' : (ws.all fun w => data.all fun d => shapeSize w == shapeSize d) = true := by
              simpa [List.all_eq_true] using h4
            simp only [h3, ne_eq, not_true_eq_false, if_false, h4', Bool.not_true, Bool.false_eq_true]
            exact ⟨fun _ => ⟨h1, h2, fun ws' hws _ => by cases hws; exact ⟨h3, h4⟩⟩, fun _ => trivial⟩
          · have h4' : (ws.all fun w => data.all fun d => shapeSize w == shapeSize d) = false := by
              rw [← Bool.not_eq_true]
              simpa [List.all_eq_true] using h4
            simp only [h3, ne_eq, not_true_eq_false, if_false, h4', Bool.not_false, if_true]
            constructor
            · intro h; cases h
            · intro h; exact absurd (h.2.2 ws rfl hE).2 h4
        · simp only [h3, ne_eq, not_false_eq_true, if_true]
          constructor
          · intro h; cases h
          · intro h; exact absurd (h.2.2 ws rfl hE).1 h3
    · have h2' : (data.all fun d => d == c0) = false := by
        rw [← Bool.not_eq_true]; simpa [List.all_eq_true] using h2
      simp only [h1', h2', Bool.not_true, Bool.false_eq_true, if_false, Bool.not_false, if_true]
      constructor
      · intro h; cases h
      · intro h; exact absurd h.2.1 h2
  · have h1' : (cs.all fun c => c == c0) = false := by
      rw [← Bool.not_eq_true]; simpa [List.all_eq_true] using h1
    simp only [h1', Bool.not_false, if_true]
    constructor
    · intro h; cases h
    · intro h; exact absurd h.1 h1

/-! Non-vacuity -/
example : checkFitInput [[4], [4]] [[4]] (some [[2, 2]]) = .ok () ∧ checkFitInput [[4], [3]] [[4]] none = .error .valueError ∧
    checkFitInput [[2, 3], [2, 3]] [[3, 2]] none = .error .valueError := by decide

/-! ### Bridges: `check_coordinates` and the validation part of `check_fit_input` regenerated from source -/

/-- `decide (a = b)`, for whatever decidability instance, is the lawful boolean equality test. -/
theorem decide_eq_beq' {α : Type} [BEq α] [LawfulBEq α] (a b : α) (inst : Decidable (a = b)) : @decide (a = b) inst = (a == b) := by
  by_cases h : a = b
  · rw [decide_eq_true h]; simp [h]
  · rw [decide_eq_false h]; simp [h]
theorem decide_ne_beq' {α : Type} [BEq α] [LawfulBEq α] (a b : α) (inst : Decidable (a ≠ b)) : @decide (a ≠ b) inst = !(a == b) := by
  by_cases h : a = b
  · rw [decide_eq_false (by simp [h])]; simp [h]
  · rw [decide_eq_true h]; simp [h]

/-- **Bridge.**  `check_coordinates` as regenerated STATEMENT BY STATEMENT from /repo's source text on every run (every array represented by
    its shape; `all(shape == shapes[0] for shape in shapes)` read as a short-circuiting monadic `allM`) accepts exactly the coordinate tuples
    whose shapes all equal the first one, and returns its argument. -/
theorem gen_check_coordinates_eq (cs : List Shape) :
    Gen.checkCoordinates cs = if cs.all (fun c => c == cs.headD []) then .ok cs else .error .valueError := by
  unfold Gen.checkCoordinates
  cases cs with
  | nil => simp [bind, Except.bind, pure, Except.pure]
  | cons c0 rest =>
    have : ∀ l : List Shape, (l.allM (m := Except Err) fun shape => do let t1 ← idxS (c0 :: rest) 0; pure (decide (shape = t1)))
        = pure (l.all fun c => c == c0) := by
      intro l
      have : (fun shape : Shape => (do let t1 ← idxS (c0 :: rest) 0; pure (decide (shape = t1)) : Except Err Bool))
          = fun shape => pure ((fun c => c == c0) shape) := by
        funext shape; simp [idxS, bind, Except.bind, pure, Except.pure, decide_eq_beq']
      rw [this, List.allM_pure]
    show (do let t2 ← (c0 :: rest).allM (m := Except Err) (fun shape => do let t1 ← idxS (c0 :: rest) 0; pure (decide (shape = t1)))
             if t2 = false then throw Err.valueError
             return (c0 :: rest)) = _
    rw [this]
    simp only [List.headD_cons, bind, Except.bind, pure, Except.pure]
    by_cases h : ((c0 :: rest).all fun c => c == c0) = true <;> simp [h, throw, throwThe, MonadExceptOf.throw]

theorem anyM_idx_ne (c0 : Shape) (cs data : List Shape) :
    (data.anyM (m := Except Err) fun i => do let t1 ← idxS (c0 :: cs) 0; pure (decide (i ≠ t1)))
      = pure (data.any fun i => !(i == c0)) := by
  have : (fun i : Shape => (do let t1 ← idxS (c0 :: cs) 0; pure (decide (i ≠ t1)) : Except Err Bool))
      = fun i => pure ((fun i => !(i == c0)) i) := by
    funext i; simp [idxS, bind, Except.bind, pure, Except.pure, decide_eq_beq']
  rw [this, List.anyM_pure]

theorem anyM_isSome_map_some (ws : List Shape) :
    ((ws.map some).anyM (m := Except Err) fun w => do pure (decide (w.isSome = true))) = pure (!ws.isEmpty) := by
  have : (fun w : Option Shape => (do pure (decide (w.isSome = true)) : Except Err Bool)) = fun w => pure ((fun w : Option Shape => w.isSome) w) := by
    funext w; simp
  rw [this, List.anyM_pure]
  cases ws <;> simp

theorem anyM_isSome_replicate (k : Nat) :
    ((List.replicate k (none : Option Shape)).anyM (m := Except Err) fun w => do pure (decide (w.isSome = true))) = pure false := by
  have : (fun w : Option Shape => (do pure (decide (w.isSome = true)) : Except Err Bool)) = fun w => pure ((fun w : Option Shape => w.isSome) w) := by
    funext w; simp
  rw [this, List.anyM_pure]
  simp

theorem anyM_sizes_map_some (ws data : List Shape) :
    ((ws.map some).anyM (m := Except Err) fun i => do data.anyM (fun j => do let t4 ← sizeOpt i; pure (decide (t4 ≠ shapeSize j))))
      = pure (ws.any fun w => data.any fun d => !(shapeSize w == shapeSize d)) := by
  induction ws with
  | nil => simp
  | cons w rest ih =>
    have inner : (data.anyM (m := Except Err) fun j => do let t4 ← sizeOpt (some w); pure (decide (t4 ≠ shapeSize j)))
        = pure (data.any fun d => !(shapeSize w == shapeSize d)) := by
      have : (fun j : Shape => (do let t4 ← sizeOpt (some w); pure (decide (t4 ≠ shapeSize j)) : Except Err Bool))
          = fun j => pure ((fun d => !(shapeSize w == shapeSize d)) j) := by
        funext j; simp [sizeOpt, bind, Except.bind, pure, Except.pure, decide_eq_beq']
      rw [this, List.anyM_pure]
    simp only [List.map_cons, List.anyM_cons, List.any_cons]
    rw [inner]
    cases h : data.any fun d => !(shapeSize w == shapeSize d)
    · simp only [pure, Except.pure, bind, Except.bind, Bool.false_or]
      exact ih
    · simp [pure, Except.pure, bind, Except.bind]

theorem any_not_eq_not_all {α : Type} (l : List α) (p : α → Bool) : (l.any fun x => !p x) = !(l.all p) := by
  induction l with
  | nil => rfl
  | cons x r ih => simp only [List.any_cons, List.all_cons, ih, Bool.not_and]

theorem any_any_not_eq_not_all_all {α β : Type} (ws : List α) (data : List β) (p : α → β → Bool) :
    (ws.any fun w => data.any fun d => !p w d) = !(ws.all fun w => data.all fun d => p w d) := by
  have : (fun w => data.any fun d => !p w d) = fun w => !(data.all fun d => p w d) := by
    funext w; exact any_not_eq_not_all data (p w)
  rw [this, any_not_eq_not_all]

/-- **Bridge.**  The validation part of `check_fit_input` as regenerated STATEMENT BY STATEMENT from /repo's source text on every run — the call to
    the translated `check_coordinates`, `any(i.shape != coordinates[0].shape for i in data)`, `any(w is not None for w in weights)`,
    `len(weights) != len(data)`, `any(i.size != j.size for i in weights for j in data)`, each `any` a short-circuiting `anyM` in which an
    element that cannot be evaluated (an index or attribute error) matters only if it is reached — equals the model's decision over shapes
    when every weight is given … -/
theorem gen_check_fit_input_weights_given (coords data ws : List Shape) :
    Gen.checkFitInput coords data (ws.map some) = checkFitInput coords data (some ws) := by
  unfold Gen.checkFitInput checkFitInput
  rw [gen_check_coordinates_eq]
  cases coords with
  | nil =>
    simp only [List.all_nil, if_true, bind, Except.bind]
    cases data with
    | nil =>
      cases ws with
      | nil => simp [pure, Except.pure]
      | cons w r => simp [pure, Except.pure, throw, throwThe, MonadExceptOf.throw, bind, Except.bind]
    | cons d r => simp [idxS, bind, Except.bind]
  | cons c0 cs =>
    simp only [List.headD_cons, List.all_cons, beq_self_eq_true, Bool.true_and]
    cases h1 : cs.all fun c => c == c0
    · simp [bind, Except.bind]
    · simp only [if_true, bind, Except.bind, Bool.not_true, Bool.false_eq_true, if_false]
      have e1 := anyM_idx_ne c0 cs data
      simp only [bind, Except.bind] at e1
      rw [e1, any_not_eq_not_all]
      cases h2 : data.all fun d => d == c0
      · simp [pure, Except.pure, throw, throwThe, MonadExceptOf.throw, bind, Except.bind]
      · simp only [Bool.not_true, pure, Except.pure, Bool.false_eq_true, if_false]
        have e2 := anyM_isSome_map_some ws
        simp only [pure, Except.pure] at e2
        rw [e2]
        cases ws with
        | nil => simp [pure, Except.pure]
        | cons w r =>
          simp only [List.isEmpty_cons, Bool.not_false, pure, Except.pure, if_true, List.length_map, Bool.false_eq_true, if_false]
          by_cases h3 : (w :: r).length = data.length
          · simp only [h3, ne_eq, not_true_eq_false, if_false]
            have := anyM_sizes_map_some (w :: r) data
            simp only [bind, Except.bind, pure, Except.pure, ne_eq] at this
            rw [this, any_any_not_eq_not_all_all]
            cases (w :: r).all fun w => data.all fun d => shapeSize w == shapeSize d <;>
              simp [pure, Except.pure, throw, throwThe, MonadExceptOf.throw, bind, Except.bind]
          · have h3' : ¬ (r.length + 1 = data.length) := by simpa using h3
            simp only [h3, ne_eq, not_false_eq_true, if_true, throw, throwThe, MonadExceptOf.throw]

/-- … and when no weight is given (`None`, or a tuple of `None`s of any length). -/
theorem gen_check_fit_input_no_weights (coords data : List Shape) (k : Nat) :
    Gen.checkFitInput coords data (List.replicate k none) = checkFitInput coords data none := by
  unfold Gen.checkFitInput checkFitInput
  rw [gen_check_coordinates_eq]
  cases coords with
  | nil =>
    simp only [List.all_nil, if_true, bind, Except.bind]
    cases data with
    | nil =>
      have e : ((List.replicate k (none : Option Shape)).anyM (m := Except Err) fun w => Except.ok w.isSome) = Except.ok false := by
        have := anyM_isSome_replicate k
        simpa [pure, Except.pure] using this
      simp [pure, Except.pure, e]
    | cons d r => simp [idxS, bind, Except.bind]
  | cons c0 cs =>
    simp only [List.headD_cons, List.all_cons, beq_self_eq_true, Bool.true_and]
    cases h1 : cs.all fun c => c == c0
    · simp [bind, Except.bind]
    · simp only [if_true, bind, Except.bind, Bool.not_true, Bool.false_eq_true, if_false]
      have e1 := anyM_idx_ne c0 cs data
      simp only [bind, Except.bind] at e1
      rw [e1, any_not_eq_not_all]
      cases h2 : data.all fun d => d == c0
      · simp [pure, Except.pure, throw, throwThe, MonadExceptOf.throw, bind, Except.bind]
      · have e : ((List.replicate k (none : Option Shape)).anyM (m := Except Err) fun w => Except.ok w.isSome) = Except.ok false := by
          have := anyM_isSome_replicate k
          simpa [pure, Except.pure] using this
        simp [pure, Except.pure, e]

theorem bind_ok {α β : Type} {m : Except Err α} {f : α → Except Err β} {r : β} (h : (m >>= f) = .ok r) :
    ∃ x, m = .ok x ∧ f x = .ok r := by
  cases m with
  | error e => simp [bind, Except.bind] at h
  | ok x => exact ⟨x, rfl, by simpa [bind, Except.bind] using h⟩

theorem throw_bind_ne_ok {α β : Type} (e : Err) (f : α → Except Err β) (r : β) : ((throw e : Except Err α) >>= f) ≠ .ok r := by
  simp [throw, throwThe, MonadExceptOf.throw, bind, Except.bind]

theorem sizes_anyM_with_none (ws : List (Option Shape)) (data : List Shape) (hd : data ≠ []) (hn : none ∈ ws) :
    (ws.anyM (m := Except Err) fun i => do data.anyM (fun j => do let t4 ← sizeOpt i; pure (decide (t4 ≠ shapeSize j)))) ≠ .ok false := by
  induction ws with
  | nil => cases hn
  | cons w rest ih =>
    obtain ⟨d, dr, rfl⟩ := List.exists_cons_of_ne_nil hd
    cases w with
    | none =>
      simp [List.anyM_cons, sizeOpt, bind, Except.bind]
    | some s =>
      have hn' : none ∈ rest := by
        cases hn with
        | tail _ h => exact h
      have inner : ((d :: dr).anyM (m := Except Err) fun j => do let t4 ← sizeOpt (some s); pure (decide (t4 ≠ shapeSize j)))
          = pure ((d :: dr).any fun x => !(shapeSize s == shapeSize x)) := by
        have : (fun j : Shape => (do let t4 ← sizeOpt (some s); pure (decide (t4 ≠ shapeSize j)) : Except Err Bool))
            = fun j => pure ((fun x => !(shapeSize s == shapeSize x)) j) := by
          funext j; simp [sizeOpt, bind, Except.bind, pure, Except.pure, decide_eq_beq']
        rw [this, List.anyM_pure]
      rw [List.anyM_cons, inner]
      cases h : (d :: dr).any fun x => !(shapeSize s == shapeSize x)
      · have := ih hn'
        simpa [pure, Except.pure, bind, Except.bind] using this
      · simp [pure, Except.pure, bind, Except.bind]

/-- Weights with a missing (`None`) entry next to a given one are never accepted: whatever the shapes, `check_fit_input` raises
    (a ValueError for a count or size mismatch met first, otherwise the AttributeError of `None.size`). -/
theorem gen_check_fit_input_mixed_none_rejected (coords data : List Shape) (ws : List (Option Shape))
    (hn : none ∈ ws) (hs : ∃ s, some s ∈ ws) : Gen.checkFitInput coords data ws ≠ .ok () := by
  unfold Gen.checkFitInput
  intro h
  obtain ⟨cs, _, h⟩ := bind_ok h
  obtain ⟨b2, _, h⟩ := bind_ok h
  dsimp only at h
  split at h
  · exact throw_bind_ne_ok _ _ _ h
  · obtain ⟨t3, h3, h⟩ := bind_ok h
    have hsome : t3 = true := by
      have : (fun w : Option Shape => (do pure (decide (w.isSome = true)) : Except Err Bool)) = fun w => pure ((fun w : Option Shape => w.isSome) w) := by
        funext w; simp
      rw [this, List.anyM_pure] at h3
      obtain ⟨s, hs⟩ := hs
      have : ws.any (fun w => w.isSome) = true := List.any_eq_true.mpr ⟨some s, hs, rfl⟩
      simp only [pure, Except.pure, this, Except.ok.injEq] at h3
      exact h3.symm
    subst hsome
    simp only [if_true] at h
    split at h
    · exact throw_bind_ne_ok _ _ _ h
    · rename_i hl
      have hl : ws.length = data.length := by simpa using hl
      have hd : data ≠ [] := by
        intro hd; subst hd
        cases ws with
        | nil => cases hn
        | cons _ _ => simp at hl
      obtain ⟨t5, h5, h⟩ := bind_ok h
      have key := sizes_anyM_with_none ws data hd hn
      cases t5 with
      | false => exact key h5
      | true =>
        simp only [if_true] at h
        exact throw_bind_ne_ok _ _ _ h

/-! ### The regenerated source satisfies the property -/
/-- The translated validation of `check_fit_input` accepts (weights all given, at least one) iff all coordinate shapes are equal, every data shape
    equals them, there is one weight array per data component and each has the data's number of elements. -/
theorem src_check_fit_input_accepts_iff (c0 : Shape) (cs data ws : List Shape) (hws : ws ≠ []) :
    Gen.checkFitInput (c0 :: cs) data (ws.map some) = .ok () ↔
      (∀ c ∈ cs, c = c0) ∧ (∀ d ∈ data, d = c0) ∧ ws.length = data.length ∧ ∀ w ∈ ws, ∀ d ∈ data, shapeSize w = shapeSize d := by
  rw [gen_check_fit_input_weights_given, check_fit_input_accepts_iff]
  constructor
  · rintro ⟨h1, h2, h3⟩
    exact ⟨h1, h2, (h3 ws rfl hws).1, (h3 ws rfl hws).2⟩
  · rintro ⟨h1, h2, h3, h4⟩
    exact ⟨h1, h2, fun ws' hw _ => by cases hw; exact ⟨h3, h4⟩⟩

end Verde.C20
