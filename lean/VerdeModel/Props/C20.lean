/-
  C20 — Calls are pure, repeatable, history-free and reject inconsistent input.
  "No function modifies the arrays it is given" and "repeating a call returns identical results" are facts about Python objects /
  determinism of the runtime: every model function is a pure function (so they hold in the model by construction) and the
  harness OBSERVES them on the implementation (bytes before/after, read-only inputs, two runs).  Proved here: the life-cycle
  state machine (refit = fresh, VectorSpline2D's documented memory, clone, predict-before-fit) and the acceptance condition
  of check_fit_input.  shape-xor-spacing and invalid regions: `C07.both_size_and_spacing_rejected`,
  `C07.grid_shape_and_spacing_rejected`, `C13.check_region_accepts_iff`, `C14.neither_shape_nor_spacing_rejected`.
-/
import VerdeModel.Model.Lifecycle
import VerdeModel.Lemmas.Num
namespace Verde.C20
open Verde

/-- **History-freedom.**  For an ordinary estimator (fit does not touch the parameters), after ANY history of operations a
    final `fit d` leaves exactly the state of a fresh estimator (same parameters) fitted to `d`. -/
theorem refit_is_fresh {π σ : Type} (fit : π → Rows → σ) (predict : σ → List (List Rat) → Data)
    (p : π) (history : List (LifeOp π)) (hp : ∀ op ∈ history, ∀ p', op ≠ LifeOp.setParams p') (d : Rows) :
    (lifeRun (plainClass fit predict) ⟨p, none⟩ (history ++ [LifeOp.fit d])).fitted = some (fit p d) ∧
    (lifeRun (plainClass fit predict) ⟨p, none⟩ (history ++ [LifeOp.fit d])).params = p := by
  have hparams : ∀ (ops : List (LifeOp π)) (s : EstState π σ), (∀ op ∈ ops, ∀ p', op ≠ LifeOp.setParams p') →
      (lifeRun (plainClass fit predict) s ops).params = s.params := by
    intro ops
    induction ops with
    | nil => intro s _; rfl
    | cons op ops ih =>
      intro s h
      simp only [lifeRun, List.foldl_cons]
      have hop := h op List.mem_cons_self
      have := ih (lifeStep (plainClass fit predict) s op) (fun o ho => h o (List.mem_cons_of_mem _ ho))
      simp only [lifeRun] at this
      rw [this]
      cases op with
      | fit r => rfl
      | clone => rfl
      | setParams p' => exact absurd rfl (hop p')
      | predict q => rfl
  have hp' := hparams history ⟨p, none⟩ hp
  simp only [lifeRun, List.foldl_append, List.foldl_cons, List.foldl_nil] at hp' ⊢
  simp only [lifeStep, plainClass] at hp' ⊢
  rw [hp']
  exact ⟨rfl, rfl⟩

/-- **VectorSpline2D's documented memory.**  With `force_coords=None`, after fits on `d₁, d₂, …, d_k` the force coordinates
    are those of the FIRST fit and the fitted state is that of an estimator constructed with those force coordinates and fitted
    to the latest data — the only way history matters. -/
theorem vs2d_force_coords_from_first_fit {σ : Type} (fit : Option (List (List Rat)) → Rows → σ)
    (predict : σ → List (List Rat) → Data) (d₁ : Rows) (rest : List Rows) :
    let final := lifeRun (vs2dClass fit predict) ⟨none, none⟩ ((d₁ :: rest).map LifeOp.fit)
    final.params = some (d₁.coords.take 2) ∧
    final.fitted = some (fit (some (d₁.coords.take 2)) ((d₁ :: rest).getLast (by simp))) := by
  have key : ∀ (ds : List Rows) (c : List (List Rat)) (st : Option σ) (last : Rows), st = some (fit (some c) last) →
      (lifeRun (vs2dClass fit predict) ⟨some c, st⟩ (ds.map LifeOp.fit)).params = some c ∧
      (lifeRun (vs2dClass fit predict) ⟨some c, st⟩ (ds.map LifeOp.fit)).fitted =
        some (fit (some c) ((last :: ds).getLast (by simp))) := by
    intro ds
    induction ds with
    | nil => intro c st last h; exact ⟨rfl, by simpa [lifeRun] using h⟩
    | cons d ds ih =>
      intro c st last _
      simp only [List.map_cons, lifeRun, List.foldl_cons]
      have := ih c (some (fit (some c) d)) d rfl
      simp only [lifeRun] at this
      have hstep : lifeStep (vs2dClass fit predict) ⟨some c, st⟩ (LifeOp.fit d) = ⟨some c, some (fit (some c) d)⟩ := rfl
      rw [hstep]
      refine ⟨this.1, ?_⟩
      rw [this.2]
      simp [List.getLast_cons]
  intro final
  have hfirst : lifeStep (vs2dClass fit predict) ⟨none, none⟩ (LifeOp.fit d₁) =
      ⟨some (d₁.coords.take 2), some (fit (some (d₁.coords.take 2)) d₁)⟩ := rfl
  have := key rest (d₁.coords.take 2) (some (fit (some (d₁.coords.take 2)) d₁)) d₁ rfl
  simp only [final, List.map_cons, lifeRun, List.foldl_cons, hfirst]
  simp only [lifeRun] at this
  exact this

/-- `clone` keeps the parameters and forgets the fit: a clone behaves like a fresh estimator with the same parameters. -/
theorem clone_same_behaviour {π σ : Type} (E : EstClass π σ) (s : EstState π σ) (ops : List (LifeOp π)) :
    lifeRun E (lifeStep E s LifeOp.clone) ops = lifeRun E ⟨s.params, none⟩ ops := rfl

/-- `get_params` / `set_params` round trip leaves the estimator unchanged. -/
theorem set_get_params_roundtrip {π σ : Type} (E : EstClass π σ) (s : EstState π σ) :
    lifeStep E s (LifeOp.setParams s.params) = s := by cases s; rfl

/-- Predicting before fitting is an error; after a fit it is the fitted model's prediction. -/
theorem predict_unfitted_errors {π σ : Type} (E : EstClass π σ) (p : π) (q : List (List Rat)) :
    lifePredict E ⟨p, none⟩ q = .error .notFitted ∧
    lifePredict E (lifeStep E ⟨p, none⟩ LifeOp.clone) q = .error .notFitted := ⟨rfl, rfl⟩

theorem predict_after_fit {π σ : Type} (E : EstClass π σ) (s : EstState π σ) (d : Rows) (q : List (List Rat)) :
    lifePredict E (lifeStep E s (LifeOp.fit d)) q =
      .ok (E.predict (E.fit (E.paramsAfterFit s.params d) d) q) := rfl

/-- `predict` does not change the estimator. -/
theorem predict_is_pure {π σ : Type} (E : EstClass π σ) (s : EstState π σ) (q : List (List Rat)) :
    lifeStep E s (LifeOp.predict q) = s := rfl

/-- **check_fit_input accepts iff** all coordinate shapes are equal, every data shape equals them, and — when weights are given —
    there is one weight array per data component, each with the data's number of elements. -/
theorem check_fit_input_accepts_iff (c0 : Shape) (cs data : List Shape) (weights : Option (List Shape)) :
    checkFitInput (c0 :: cs) data weights = .ok () ↔
      (∀ c ∈ cs, c = c0) ∧ (∀ d ∈ data, d = c0) ∧
      (∀ ws, weights = some ws → ws.length = data.length ∧ ∀ w ∈ ws, ∀ d ∈ data, shapeSize w = shapeSize d) := by
  unfold checkFitInput
  by_cases h1 : ∀ c ∈ cs, c = c0
  · have h1' : (cs.all fun c => c == c0) = true := by simpa [List.all_eq_true] using h1
    by_cases h2 : ∀ d ∈ data, d = c0
    · have h2' : (data.all fun d => d == c0) = true := by simpa [List.all_eq_true] using h2
      simp only [h1', h2', Bool.not_true, Bool.false_eq_true, if_false]
      cases weights with
      | none => exact ⟨fun _ => ⟨h1, h2, fun ws h => by cases h⟩, fun _ => rfl⟩
      | some ws =>
        by_cases h3 : ws.length = data.length
        · by_cases h4 : ∀ w ∈ ws, ∀ d ∈ data, shapeSize w = shapeSize d
          · have h4' : (ws.all fun w => data.all fun d => shapeSize w == shapeSize d) = true := by
              simpa [List.all_eq_true] using h4
            simp only [h3, ne_eq, not_true_eq_false, if_false, h4', Bool.not_true, Bool.false_eq_true]
            exact ⟨fun _ => ⟨h1, h2, fun ws' hws => by cases hws; exact ⟨h3, h4⟩⟩, fun _ => trivial⟩
          · have h4' : (ws.all fun w => data.all fun d => shapeSize w == shapeSize d) = false := by
              rw [← Bool.not_eq_true]
              simpa [List.all_eq_true] using h4
            simp only [h3, ne_eq, not_true_eq_false, if_false, h4', Bool.not_false, if_true]
            constructor
            · intro h; cases h
            · intro h; exact absurd (h.2.2 ws rfl).2 h4
        · simp only [h3, ne_eq, not_false_eq_true, if_true]
          constructor
          · intro h; cases h
          · intro h; exact absurd (h.2.2 ws rfl).1 h3
    · have h2' : (data.all fun d => d == c0) = false := by
        rw [← Bool.not_eq_true]; simpa [List.all_eq_true] using h2
      simp only [h1', h2', Bool.not_true, Bool.false_eq_true, if_false, Bool.not_false, if_true]
      constructor
      · intro h; cases h
      · intro h; exact absurd h.2.1 h2
  · have h1' : (cs.all fun c => c == c0) = false := by
      rw [← Bool.not_eq_true]; simpa [List.all_eq_true] using h1
    simp only [h1', Bool.not_false, if_true]
    constructor
    · intro h; cases h
    · intro h; exact absurd h.1 h1

/-! Non-vacuity -/
example : checkFitInput [[4], [4]] [[4]] (some [[2, 2]]) = .ok () ∧ checkFitInput [[4], [3]] [[4]] none = .error .valueError ∧
    checkFitInput [[2, 3], [2, 3]] [[3, 2]] none = .error .valueError := by decide

end Verde.C20
