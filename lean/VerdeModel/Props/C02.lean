/-
  C02 — Fitted models are the weighted, damped least-squares optimum.

  `leastSquares` (Model/LinAlg.lean) solves `(JᵀWJ + α·diag s)p = JᵀW d`, `s_j` = population variance of column j
  (1 if zero) — the unit-variance-column scaling of StandardScaler(with_mean=False) + LinearRegression/Ridge.
  The elimination routine itself is not verified: every answer the driver returns carries the certificate
  `normalEqHolds … = true`, and `checker_sound` + `ls_optimal` turn an accepted certificate into global optimality.

  Limit statement ("a datum whose weight *tends to* zero stops influencing the fit"): `zero_weight_is_deletion` is the exact
  statement at weight zero (any ordered field, same column scaling) and `zero_weight_limit` is the limit itself over ℝ:
  wherever the deleted problem is well posed (injective normal matrix), the fit is a continuous function of the weights
  (Cramer/adjugate form of the inverse, Lemmas/LeastSquaresLimit.lean), so as `w → w₀` with `w₀ i₀ = 0` the parameters
  converge to those of the data set without datum `i₀`.  The harness also checks a 1e-12 weight against deletion numerically.
-/
import VerdeModel.Gen.LeastSquares
import VerdeModel.Lemmas.LinAlgBridge
import VerdeModel.Lemmas.LeastSquaresLimit
namespace Verde.C02
open Verde Finset

/-- A solution of the weighted, damped normal equations minimises
    `Σ wᵢ (dᵢ − (Jq)ᵢ)² + α Σ sⱼ qⱼ²` over all `q` (any ordered field, any sizes). -/
theorem ls_optimal {K : Type} [Field K] [LinearOrder K] [IsStrictOrderedRing K] {m n : ℕ}
    (J : Fin m → Fin n → K) (w d : Fin m → K) (α : K) (s p : Fin n → K)
    (hw : ∀ i, 0 ≤ w i) (hα : 0 ≤ α) (hs : ∀ j, 0 ≤ s j) (hp : LS.normalEq J w d α s p) (q : Fin n → K) :
    LS.obj J w d α s p ≤ LS.obj J w d α s q := LS.ls_optimal J w d α s p hw hα hs hp q

/-- The executable certificate checker is sound. -/
theorem checker_sound (J : Mat) (d w : Vec) (alpha : Rat) (s p : Vec) (n : Nat)
    (h : normalEqHolds J d w alpha s p n = true) :
    LS.normalEq (matFn J n) (vecFn w J.length) (vecFn d J.length) alpha (vecFn s n) (vecFn p n) :=
  Verde.checker_sound J d w alpha s p n h

/-- **The model's answer is the optimum.**  Whenever the checker accepts `p` for non-negative weights and damping,
    `p` minimises the documented objective in the unit-variance-column scaling `s_j = colScale2 J j`. -/
theorem certified_answer_is_optimal (J : Mat) (d w : Vec) (alpha : Rat) (p : Vec) (n : Nat)
    (hw : ∀ i : Fin J.length, 0 ≤ w.getD i 0) (hα : 0 ≤ alpha)
    (h : normalEqHolds J d w alpha ((List.range n).map (colScale2 J)) p n = true) (q : Fin n → Rat) :
    LS.obj (matFn J n) (vecFn w J.length) (vecFn d J.length) alpha (vecFn ((List.range n).map (colScale2 J)) n) (vecFn p n)
      ≤ LS.obj (matFn J n) (vecFn w J.length) (vecFn d J.length) alpha (vecFn ((List.range n).map (colScale2 J)) n) q := by
  apply LS.ls_optimal _ _ _ _ _ _ hw hα _ (Verde.checker_sound J d w alpha _ p n h)
  intro j
  simp only [vecFn, List.getD_eq_getElem?_getD, List.getElem?_map, List.getElem?_range j.isLt, Option.map_some,
    Option.getD_some]
  exact (colScale2_pos J j).le

/-- The column scaling is strictly positive (so damping penalises every parameter). -/
theorem column_scale_positive (J : Mat) (j : Nat) : 0 < colScale2 J j := colScale2_pos J j

/-- Uniqueness: an independently assembled and solved problem has the same solution when the normal matrix is injective. -/
theorem ls_unique {K : Type} [Field K] [LinearOrder K] [IsStrictOrderedRing K] {m n : ℕ}
    (J : Fin m → Fin n → K) (w d : Fin m → K) (α : K) (s p q : Fin n → K)
    (hinj : LS.Injective' J w α s) (hp : LS.normalEq J w d α s p) (hq : LS.normalEq J w d α s q) : p = q :=
  LS.ls_unique J w d α s p q hinj hp hq

/-- Multiplying all weights by a non-zero constant leaves an undamped fit unchanged. -/
theorem weights_scale_invariant {K : Type} [Field K] [LinearOrder K] [IsStrictOrderedRing K] {m n : ℕ}
    (J : Fin m → Fin n → K) (w d : Fin m → K) (c : K) (hc : c ≠ 0) (s p : Fin n → K) :
    LS.normalEq J (fun i => c * w i) d 0 s p ↔ LS.normalEq J w d 0 s p :=
  LS.weights_scale_invariant J w d c hc s p

/-- A datum of weight zero does not influence the normal equations. -/
theorem zero_weight_is_deletion {K : Type} [Field K] [LinearOrder K] [IsStrictOrderedRing K] {m n : ℕ}
    (J : Fin (m + 1) → Fin n → K) (w d : Fin (m + 1) → K) (α : K) (s p : Fin n → K) (i₀ : Fin (m + 1)) (h0 : w i₀ = 0) :
    LS.normalEq J w d α s p ↔
      LS.normalEq (fun i => J (i₀.succAbove i)) (fun i => w (i₀.succAbove i)) (fun i => d (i₀.succAbove i)) α s p :=
  LS.zero_weight_is_deletion J w d α s p i₀ h0

/-- **Limit statement** (over ℝ).  Let `w₀` give weight zero to datum `i₀` and let the problem at `w₀` be well posed (injective
    normal matrix — equivalently, by `zero_weight_is_deletion`, the problem WITHOUT datum `i₀`).  For any family `p w` of fitted
    parameters (solutions of the normal equations for the weights `w`, for all `w` near `w₀`), `p w → p w₀` as `w → w₀` — in
    particular as the single weight `w i₀ → 0` with the others fixed — and `p w₀` solves the normal equations of the data set
    with datum `i₀` deleted: a datum whose weight tends to zero stops influencing the fit. -/
theorem zero_weight_limit {m n : ℕ} (J : Fin (m + 1) → Fin n → ℝ) (d : Fin (m + 1) → ℝ) (α : ℝ) (s : Fin n → ℝ)
    (w₀ : Fin (m + 1) → ℝ) (i₀ : Fin (m + 1)) (h0 : w₀ i₀ = 0) (hinj : LS.Injective' J w₀ α s)
    (p : (Fin (m + 1) → ℝ) → Fin n → ℝ) (hp : ∀ᶠ w in nhds w₀, LS.normalEq J w d α s (p w)) :
    Filter.Tendsto p (nhds w₀) (nhds (p w₀)) ∧
      LS.normalEq (fun i => J (i₀.succAbove i)) (fun i => w₀ (i₀.succAbove i)) (fun i => d (i₀.succAbove i)) α s (p w₀) :=
  ⟨LS.solution_tendsto J d α s w₀ hinj p hp,
   (LS.zero_weight_is_deletion J w₀ d α s (p w₀) i₀ h0).mp hp.self_of_nhds⟩

/-- The hypotheses of `zero_weight_limit` are satisfiable: one parameter, two data, the second with weight zero. -/
example : LS.Injective' (fun (_ : Fin 2) (_ : Fin 1) => (1 : ℝ)) (fun i => if i = 0 then 1 else 0) 0 (fun _ => 1) := by
  intro v hv
  have := hv 0
  simp at this
  funext j
  have hj : j = 0 := Subsingleton.elim _ _
  subst hj; simpa using this

/-- VectorSpline2D concatenates data and weights in the same (east, north) order: every datum keeps its own weight. -/
theorem vector_weights_order (de dn we wn : List Rat) (h : de.length = we.length) :
    (de ++ dn).zip (we ++ wn) = de.zip we ++ dn.zip wn := List.zip_append h

/-- The documented monomial table has `(N+1)(N+2)/2` entries (also used by C03). -/
theorem power_combinations_count (N : Nat) : (powerCombinations N).length * 2 = (N + 1) * (N + 2) := by
  unfold powerCombinations
  rw [List.length_flatMap]
  simp only [List.length_map, List.length_range]
  induction N with
  | zero => simp
  | succ N ih =>
    rw [List.range_succ, List.map_append, List.sum_append]
    simp only [List.map_cons, List.map_nil, List.sum_cons, List.sum_nil]
    have := ih
    nlinarith

/-! Non-vacuity: a concrete weighted, damped system whose exact solution passes the checker. -/
example : leastSquares [[1, 0], [1, 1], [1, 2], [1, 3]] [1, 3, 5, 8] (some [1, 2, 1, 1/2]) (some (1/10)) 2
    = some [128/149, 1632/745] := by decide +kernel
example : normalEqHolds [[1, 0], [1, 1], [1, 2], [1, 3]] [1, 3, 5, 8] [1, 2, 1, 1/2] (1/10)
    ((List.range 2).map (colScale2 [[1, 0], [1, 1], [1, 2], [1, 3]])) [128/149, 1632/745] 2 = true := by decide +kernel

/-! ### Bridge: `least_squares` read from source as a specification -/

/-- **Bridge.**  `least_squares` read statement by statement from /repo's source text on every run, as a specification over scikit-learn's contracts
    (column j of the Jacobian divided by `scaler.scale_[j]`; `coef_` solves the weighted (ridge) normal equations of the SCALED matrix with every
    parameter penalised alike; `params = regr.coef_ / scaler.scale_`, the operator read from the source): the returned parameters solve the
    model's normal equations `JᵀW(Jp − d) + α·diag(scale²)·p = 0` — the unit-variance-column scaling — for every Jacobian, data, weights,
    damping (or none) and non-zero scales. -/
theorem gen_least_squares_spec_solves_model {K : Type} [Field K] [LinearOrder K] [IsStrictOrderedRing K] {m n : ℕ}
    (J : Fin m → Fin n → K) (d w : Fin m → K) (damping : Option K) (scale params : Fin n → K)
    (hs : ∀ j, scale j ≠ 0) (h : Gen.leastSquaresSpec J d w damping scale params) :
    LS.normalEq J w d (damping.getD 0) (fun j => scale j ^ 2) params := by
  obtain ⟨coef, hc, rfl⟩ := h
  intro j
  have hj := hc j
  simp only [] at hj
  have key : (∑ i, w i * J i j * ((∑ k, J i k * (coef k / scale k)) - d i)) + damping.getD 0 * scale j ^ 2 * (coef j / scale j)
      = scale j * ((∑ i, w i * (J i j / scale j) * ((∑ k, J i k / scale k * coef k) - d i)) + damping.getD 0 * 1 * coef j) := by
    have hsj := hs j
    rw [mul_add, Finset.mul_sum]
    congr 1
    · apply Finset.sum_congr rfl
      intro i _
      have : (∑ k, J i k * (coef k / scale k)) = ∑ k, J i k / scale k * coef k := by
        apply Finset.sum_congr rfl; intro k _; field_simp [hs k]
      rw [this]
      field_simp
    · field_simp
  rw [key, hj, mul_zero]

/-- … hence (non-negative weights and damping) they minimise the documented objective `Σ w r² + α Σ scale_j² p_j²` over all parameter vectors. -/
theorem gen_least_squares_spec_optimal {K : Type} [Field K] [LinearOrder K] [IsStrictOrderedRing K] {m n : ℕ}
    (J : Fin m → Fin n → K) (d w : Fin m → K) (damping : Option K) (scale params : Fin n → K)
    (hs : ∀ j, scale j ≠ 0) (hw : ∀ i, 0 ≤ w i) (hα : 0 ≤ damping.getD 0) (h : Gen.leastSquaresSpec J d w damping scale params)
    (q : Fin n → K) :
    LS.obj J w d (damping.getD 0) (fun j => scale j ^ 2) params ≤ LS.obj J w d (damping.getD 0) (fun j => scale j ^ 2) q :=
  LS.ls_optimal J w d _ _ params hw hα (fun j => sq_nonneg _) (gen_least_squares_spec_solves_model J d w damping scale params hs h) q

end Verde.C02
