/-
  C16 — Hull masking and grid projection keep values only where data constrain them.
  The model decides "inside the convex hull" by searching a non-degenerate triangle of data points containing the query
  (exact rationals).  Proved: soundness (a containing triangle exhibits the query as a convex combination of data points),
  invariance under the mean/std normalisation and under any positive scaling + offset of the coordinates.
  NOT proved (`_partial`): completeness (every point of the convex hull lies in such a triangle — Carathéodory); it is
  covered by agreement with an independent exact hull construction in the correspondence.  Delaunay/Qhull and the SciPy
  interpolators inside project_grid are trusted contracts; the known finding F1 (cubic overshoot) is in known_findings.json.
-/
import VerdeModel.Model.Hull
import VerdeModel.Lemmas.MinMax
import VerdeModel.Lemmas.Coords
import VerdeModel.Model.Blocks
import Mathlib.Algebra.BigOperators.Group.List.Basic
namespace Verde.C16
open Verde

/-- The three sub-areas add up to the triangle's area. -/
theorem orient_sum (p a b c : Pt) : orient p b c + orient a p c + orient a b p = orient a b c := by
  unfold orient; ring

/-- **Soundness.**  A point accepted by `inTriangle` is a convex combination of the three vertices with the
    (non-negative, unit-sum) barycentric weights `oᵢ / D`. -/
theorem inTriangle_sound (p a b c : Pt) (h : inTriangle p a b c = true) :
    ∃ α β γ : Rat, 0 ≤ α ∧ 0 ≤ β ∧ 0 ≤ γ ∧ α + β + γ = 1 ∧
      p.1 = α * a.1 + β * b.1 + γ * c.1 ∧ p.2 = α * a.2 + β * b.2 + γ * c.2 := by
  unfold inTriangle at h
  simp only [Bool.and_eq_true, Bool.or_eq_true, decide_eq_true_eq] at h
  obtain ⟨hd, hcases⟩ := h
  set D := orient a b c with hD
  have hsum := orient_sum p a b c
  refine ⟨orient p b c / D, orient a p c / D, orient a b p / D, ?_, ?_, ?_, ?_, ?_, ?_⟩
  · rcases hcases with ⟨⟨⟨hp, h1⟩, _⟩, _⟩ | ⟨⟨⟨hn, h1⟩, _⟩, _⟩
    · exact div_nonneg h1 hp.le
    · exact div_nonneg_of_nonpos h1 hn.le
  · rcases hcases with ⟨⟨⟨hp, _⟩, h2⟩, _⟩ | ⟨⟨⟨hn, _⟩, h2⟩, _⟩
    · exact div_nonneg h2 hp.le
    · exact div_nonneg_of_nonpos h2 hn.le
  · rcases hcases with ⟨⟨⟨hp, _⟩, _⟩, h3⟩ | ⟨⟨⟨hn, _⟩, _⟩, h3⟩
    · exact div_nonneg h3 hp.le
    · exact div_nonneg_of_nonpos h3 hn.le
  · rw [← add_div, ← add_div, hsum, ← hD, div_self hd]
  · field_simp
    simp only [hD, orient]; ring
  · field_simp
    simp only [hD, orient]; ring

/-- `inHull` is sound: an accepted point is a convex combination of three data points. -/
theorem inHull_sound (S : List Pt) (p : Pt) (h : inHull S p = true) :
    ∃ a ∈ S, ∃ b ∈ S, ∃ c ∈ S, ∃ α β γ : Rat, 0 ≤ α ∧ 0 ≤ β ∧ 0 ≤ γ ∧ α + β + γ = 1 ∧
      p.1 = α * a.1 + β * b.1 + γ * c.1 ∧ p.2 = α * a.2 + β * b.2 + γ * c.2 := by
  unfold inHull at h
  simp only [List.any_eq_true] at h
  obtain ⟨a, ha, b, hb, c, hc, ht⟩ := h
  exact ⟨a, ha, b, hb, c, hc, inTriangle_sound p a b c ht⟩

/-- Orientation under the normalisation `(x − mean)/std`: divided by `sx·sy`. -/
theorem orient_normalise (mx sx my sy : Rat) (hsx : sx ≠ 0) (hsy : sy ≠ 0) (a b c : Pt) :
    orient (normalise mx sx my sy a) (normalise mx sx my sy b) (normalise mx sx my sy c) = orient a b c / (sx * sy) := by
  unfold orient normalise
  field_simp
  ring

/-- **Scale/offset invariance.**  The triangle test — hence the hull mask — is unchanged by the mean/std normalisation and by any
    positive rescaling and translation of the coordinates (data and query points alike). -/
theorem inTriangle_normalise (mx sx my sy : Rat) (hsx : 0 < sx) (hsy : 0 < sy) (p a b c : Pt) :
    inTriangle (normalise mx sx my sy p) (normalise mx sx my sy a) (normalise mx sx my sy b) (normalise mx sx my sy c)
      = inTriangle p a b c := by
  have hpos : 0 < sx * sy := mul_pos hsx hsy
  unfold inTriangle
  simp only [orient_normalise mx sx my sy (ne_of_gt hsx) (ne_of_gt hsy)]
  have e1 : ∀ x : Rat, (x / (sx * sy) ≠ 0) ↔ x ≠ 0 := fun x => by
    rw [ne_eq, div_eq_zero_iff]; simp [ne_of_gt hpos]
  have e2 : ∀ x : Rat, (0 < x / (sx * sy)) ↔ 0 < x := fun x => by rw [lt_div_iff₀ hpos]; simp
  have e3 : ∀ x : Rat, (0 ≤ x / (sx * sy)) ↔ 0 ≤ x := fun x => by rw [le_div_iff₀ hpos]; simp
  have e4 : ∀ x : Rat, (x / (sx * sy) < 0) ↔ x < 0 := fun x => by rw [div_lt_iff₀ hpos]; simp
  have e5 : ∀ x : Rat, (x / (sx * sy) ≤ 0) ↔ x ≤ 0 := fun x => by rw [div_le_iff₀ hpos]; simp
  simp only [e1, e2, e3, e4, e5]

theorem any_map' {α β : Type} (f : α → β) (g : β → Bool) (l : List α) : (l.map f).any g = l.any fun a => g (f a) := by
  induction l with
  | nil => rfl
  | cons x xs ih => simp [ih]

theorem inHull_normalise (mx sx my sy : Rat) (hsx : 0 < sx) (hsy : 0 < sy) (S : List Pt) (p : Pt) :
    inHull (S.map (normalise mx sx my sy)) (normalise mx sx my sy p) = inHull S p := by
  unfold inHull
  simp only [any_map', inTriangle_normalise mx sx my sy hsx hsy]

/-- Array and grid forms agree: the grid form evaluates the same predicate at `(east[j], north[i])` of the grid's meshgrid. -/
theorem hull_grid_array_consistent (S : List Pt) (east north : List Rat) :
    convexHullMask S (north.flatMap fun y => east.map fun x => (x, y)) =
      north.flatMap fun y => east.map fun x => inHull S (x, y) := by
  unfold convexHullMask
  simp only [List.map_flatMap, List.map_map]
  rfl

/-- `linspace` commutes with an increasing affine map: for an axis-aligned affine projection the projected data nodes are
    exactly the nodes of the new grid (so an interpolator that is exact at its nodes reproduces the values). -/
theorem axis_affine_nodes_coincide (s t a b : Rat) (n : Nat) :
    linspace (a * s + b) (a * t + b) n = (linspace s t n).map fun x => a * x + b := by
  unfold linspace
  split_ifs with h
  · simp
  · simp only [List.map_map]
    apply List.map_congr_left
    intro i _
    simp only [Function.comp]
    ring

/-- Means stay within the range of their members (block means of the antialiasing step; convex-combination interpolants). -/
theorem mean_within_range (xs : List Rat) (lo hi : Rat) (hne : xs ≠ []) (hlo : ∀ x ∈ xs, lo ≤ x) (hhi : ∀ x ∈ xs, x ≤ hi) :
    lo ≤ mean xs ∧ mean xs ≤ hi := by
  have hlen : (0 : Rat) < (xs.length : Rat) := by
    have : 0 < xs.length := List.length_pos_iff.mpr hne
    exact_mod_cast this
  have h1 : (xs.length : Rat) * lo ≤ xs.sum := by
    clear hne hlen hhi
    induction xs with
    | nil => simp
    | cons x xs ih =>
      simp only [List.length_cons, List.sum_cons, Nat.cast_add, Nat.cast_one]
      have := ih (fun y hy => hlo y (List.mem_cons_of_mem _ hy))
      have := hlo x List.mem_cons_self
      linarith
  have h2 : xs.sum ≤ (xs.length : Rat) * hi := by
    clear hne hlen hlo h1
    induction xs with
    | nil => simp
    | cons x xs ih =>
      simp only [List.length_cons, List.sum_cons, Nat.cast_add, Nat.cast_one]
      have := ih (fun y hy => hhi y (List.mem_cons_of_mem _ hy))
      have := hhi x List.mem_cons_self
      linarith
  unfold mean
  constructor
  · rw [le_div_iff₀ hlen]; linarith
  · rw [div_le_iff₀ hlen]; linarith

/-- The output grid of `project_grid` (default arguments) spans exactly the bounding box of the projected data points. -/
theorem project_grid_region (pe pn : List Rat) (shape : Nat × Nat) (r : Region) (hr : getRegion pe pn = some r)
    (sn se : Rat) (hsp : shapeToSpacing r shape false = some (sn, se)) (hwe : r.w ≤ r.e) (hsn : r.s ≤ r.n) :
    projectGridLines pe pn shape none none = gridLines [r.w, r.e, r.s, r.n] ⟨none, some [sn, se], .spacing, false⟩ := by
  simp [projectGridLines, hr, hsp, checkRegion, not_lt.mpr hwe, not_lt.mpr hsn, bind, Except.bind, pure, Except.pure]

/-! Non-vacuity -/
example : inHull [(0, 0), (4, 0), (0, 4), (4, 4)] (2, 2) = true ∧ inHull [(0, 0), (4, 0), (0, 4), (4, 4)] (5, 5) = false := by
  decide +kernel
example : inTriangle (1, 1) (0, 0) (4, 0) (0, 4) = true := by decide +kernel

end Verde.C16
