/-
  C16 — Hull masking and grid projection keep values only where data constrain them.
  The model decides "inside the convex hull" by searching a non-degenerate triangle of data points containing the query
  (exact rationals).  Proved: soundness (a containing triangle exhibits the query as a convex combination of data points),
  invariance under the mean/std normalisation and under any positive scaling + offset of the coordinates.
  Completeness (every convex combination of the data lies in such a triangle when the data are not all collinear — planar
  Carathéodory, proved elementarily in Lemmas/Hull.lean) makes the model's predicate EXACTLY "p ∈ convexHull ℚ S"
  (`inHull_iff_mem_convexHull`, Mathlib's `convexHull`).  Delaunay/Qhull and the SciPy
  interpolators inside project_grid are trusted contracts; the known finding F1 (cubic overshoot) is in known_findings.json.
-/
import VerdeModel.Model.Hull
import VerdeModel.Lemmas.MinMax
import VerdeModel.Lemmas.Coords
import VerdeModel.Model.Blocks
import Mathlib.Algebra.BigOperators.Group.List.Basic
import VerdeModel.Lemmas.Hull
import Mathlib.Analysis.Convex.Hull
import VerdeModel.Gen.Mask
import VerdeModel.Gen.ProjectGrid
namespace Verde.C16
open Verde

/-- The three sub-areas add up to the triangle's area. -/
theorem orient_sum (p a b c : Pt) : orient p b c + orient a p c + orient a b p = orient a b c := by
  unfold orient; ring

/-- **Soundness.**  A point accepted by `inTriangle` is a convex combination of the three vertices with the
    (non-negative, unit-sum) barycentric weights `oᵢ / D`. -/
theorem inTriangle_sound (p a b c : Pt) (h : inTriangle p a b c = true) :
    ∃ α β γ : Rat, 0 ≤ α ∧ 0 ≤ β ∧ 0 ≤ γ ∧ α + β + γ = 1 ∧
      p.1 = α * a.1 + β * b.1 + γ * c.1 ∧ p.2 = α * a.2 + β * b.2 + γ * c.2 := by
  unfold inTriangle at h
  simp only [Bool.and_eq_true, Bool.or_eq_true, decide_eq_true_eq] at h
  obtain ⟨hd, hcases⟩ := h
  set D := orient a b c with hD
  have hsum := orient_sum p a b c
  refine ⟨orient p b c / D, orient a p c / D, orient a b p / D, ?_, ?_, ?_, ?_, ?_, ?_⟩
  · rcases hcases with ⟨⟨⟨hp, h1⟩, _⟩, _⟩ | ⟨⟨⟨hn, h1⟩, _⟩, _⟩
    · exact div_nonneg h1 hp.le
    · exact div_nonneg_of_nonpos h1 hn.le
  · rcases hcases with ⟨⟨⟨hp, _⟩, h2⟩, _⟩ | ⟨⟨⟨hn, _⟩, h2⟩, _⟩
    · exact div_nonneg h2 hp.le
    · exact div_nonneg_of_nonpos h2 hn.le
  · rcases hcases with ⟨⟨⟨hp, _⟩, _⟩, h3⟩ | ⟨⟨⟨hn, _⟩, _⟩, h3⟩
    · exact div_nonneg h3 hp.le
    · exact div_nonneg_of_nonpos h3 hn.le
  · rw [← add_div, ← add_div, hsum, ← hD, div_self hd]
  · field_simp
    simp only [hD, orient]; ring
  · field_simp
    simp only [hD, orient]; ring

/-- `inHull` is sound: an accepted point is a convex combination of three data points. -/
theorem inHull_sound (S : List Pt) (p : Pt) (h : inHull S p = true) :
    ∃ a ∈ S, ∃ b ∈ S, ∃ c ∈ S, ∃ α β γ : Rat, 0 ≤ α ∧ 0 ≤ β ∧ 0 ≤ γ ∧ α + β + γ = 1 ∧
      p.1 = α * a.1 + β * b.1 + γ * c.1 ∧ p.2 = α * a.2 + β * b.2 + γ * c.2 := by
  unfold inHull at h
  simp only [List.any_eq_true] at h
  obtain ⟨a, ha, b, hb, c, hc, ht⟩ := h
  exact ⟨a, ha, b, hb, c, hc, inTriangle_sound p a b c ht⟩

/-- Orientation under the normalisation `(x − mean)/std`: divided by `sx·sy`. -/
theorem orient_normalise (mx sx my sy : Rat) (hsx : sx ≠ 0) (hsy : sy ≠ 0) (a b c : Pt) :
    orient (normalise mx sx my sy a) (normalise mx sx my sy b) (normalise mx sx my sy c) = orient a b c / (sx * sy) := by
  unfold orient normalise
  field_simp
  ring

/-- **Scale/offset invariance.**  The triangle test — hence the hull mask — is unchanged by the mean/std normalisation and by any
    positive rescaling and translation of the coordinates (data and query points alike). -/
theorem inTriangle_normalise (mx sx my sy : Rat) (hsx : 0 < sx) (hsy : 0 < sy) (p a b c : Pt) :
    inTriangle (normalise mx sx my sy p) (normalise mx sx my sy a) (normalise mx sx my sy b) (normalise mx sx my sy c)
      = inTriangle p a b c := by
  have hpos : 0 < sx * sy := mul_pos hsx hsy
  unfold inTriangle
  simp only [orient_normalise mx sx my sy (ne_of_gt hsx) (ne_of_gt hsy)]
  have e1 : ∀ x : Rat, (x / (sx * sy) ≠ 0) ↔ x ≠ 0 := fun x => by
    rw [ne_eq, div_eq_zero_iff]; simp [ne_of_gt hpos]
  have e2 : ∀ x : Rat, (0 < x / (sx * sy)) ↔ 0 < x := fun x => by rw [lt_div_iff₀ hpos]; simp
  have e3 : ∀ x : Rat, (0 ≤ x / (sx * sy)) ↔ 0 ≤ x := fun x => by rw [le_div_iff₀ hpos]; simp
  have e4 : ∀ x : Rat, (x / (sx * sy) < 0) ↔ x < 0 := fun x => by rw [div_lt_iff₀ hpos]; simp
  have e5 : ∀ x : Rat, (x / (sx * sy) ≤ 0) ↔ x ≤ 0 := fun x => by rw [div_le_iff₀ hpos]; simp
  simp only [e1, e2, e3, e4, e5]

theorem any_map' {α β : Type} (f : α → β) (g : β → Bool) (l : List α) : (l.map f).any g = l.any fun a => g (f a) := by
  induction l with
  | nil => rfl
  | cons x xs ih => simp [ih]

theorem inHull_normalise (mx sx my sy : Rat) (hsx : 0 < sx) (hsy : 0 < sy) (S : List Pt) (p : Pt) :
    inHull (S.map (normalise mx sx my sy)) (normalise mx sx my sy p) = inHull S p := by
  unfold inHull
  simp only [any_map', inTriangle_normalise mx sx my sy hsx hsy]

/-- Array and grid forms agree: the grid form evaluates the same predicate at `(east[j], north[i])` of the grid's meshgrid. -/
theorem hull_grid_array_consistent (S : List Pt) (east north : List Rat) :
    convexHullMask S (north.flatMap fun y => east.map fun x => (x, y)) =
      north.flatMap fun y => east.map fun x => inHull S (x, y) := by
  unfold convexHullMask
  simp only [List.map_flatMap, List.map_map]
  rfl

/-- `linspace` commutes with an increasing affine map: for an axis-aligned affine projection the projected data nodes are
    exactly the nodes of the new grid (so an interpolator that is exact at its nodes reproduces the values). -/
theorem axis_affine_nodes_coincide (s t a b : Rat) (n : Nat) :
    linspace (a * s + b) (a * t + b) n = (linspace s t n).map fun x => a * x + b := by
  unfold linspace
  split_ifs with h
  · simp
  · simp only [List.map_map]
    apply List.map_congr_left
    intro i _
    simp only [Function.comp]
    ring

/-- Means stay within the range of their members (block means of the antialiasing step; convex-combination interpolants). -/
theorem mean_within_range (xs : List Rat) (lo hi : Rat) (hne : xs ≠ []) (hlo : ∀ x ∈ xs, lo ≤ x) (hhi : ∀ x ∈ xs, x ≤ hi) :
    lo ≤ mean xs ∧ mean xs ≤ hi := by
  have hlen : (0 : Rat) < (xs.length : Rat) := by
    have : 0 < xs.length := List.length_pos_iff.mpr hne
    exact_mod_cast this
  have h1 : (xs.length : Rat) * lo ≤ xs.sum := by
    clear hne hlen hhi
    induction xs with
    | nil => simp
    | cons x xs ih =>
      simp only [List.length_cons, List.sum_cons, Nat.cast_add, Nat.cast_one]
      have := ih (fun y hy => hlo y (List.mem_cons_of_mem _ hy))
      have := hlo x List.mem_cons_self
      linarith
  have h2 : xs.sum ≤ (xs.length : Rat) * hi := by
    clear hne hlen hlo h1
    induction xs with
    | nil => simp
    | cons x xs ih =>
      simp only [List.length_cons, List.sum_cons, Nat.cast_add, Nat.cast_one]
      have := ih (fun y hy => hhi y (List.mem_cons_of_mem _ hy))
      have := hhi x List.mem_cons_self
      linarith
  unfold mean
  constructor
  · rw [le_div_iff₀ hlen]; linarith
  · rw [div_le_iff₀ hlen]; linarith

/-- The output grid of `project_grid` (default arguments) spans exactly the bounding box of the projected data points. -/
theorem project_grid_region (pe pn : List Rat) (shape : Nat × Nat) (r : Region) (hr : getRegion pe pn = some r)
    (sn se : Rat) (hsp : shapeToSpacing r shape false = some (sn, se)) (hwe : r.w ≤ r.e) (hsn : r.s ≤ r.n) :
    projectGridLines pe pn shape none none = gridLines [r.w, r.e, r.s, r.n] ⟨none, some [sn, se], .spacing, false⟩ := by
  simp [projectGridLines, hr, hsp, checkRegion, not_lt.mpr hwe, not_lt.mpr hsn, bind, Except.bind, pure, Except.pure]

/-- The data are not all collinear (the property's "non-degenerate hull"). -/
def NonDegenerate (S : List Pt) : Prop := ∃ a ∈ S, ∃ b ∈ S, ∃ c ∈ S, orient a b c ≠ 0

/-- **Completeness (planar Carathéodory).**  If the data are not all collinear, every convex combination of the data points —
    with any number of points and any non-negative weights adding up to one — is accepted by the triangle search. -/
theorem inHull_complete (S : List Pt) (p : Pt) (hnd : NonDegenerate S) (h : IsConvComb S p) : inHull S p = true := by
  rw [inHull_iff_inTri]
  obtain ⟨a, ha, b, hb, c, hc, hd⟩ := hnd
  -- the vertex `a` lies in a positively oriented triangle of data points
  have hq : InTri S a := by
    rcases lt_or_gt_of_ne hd with hneg | hpos
    · refine ⟨a, ha, c, hc, b, hb, ?_⟩
      refine ⟨by rw [orient_swap23]; linarith, by rw [orient_swap23]; linarith, ?_, ?_⟩ <;> simp [orient]
    · refine ⟨a, ha, b, hb, c, hc, hpos, hpos.le, ?_, ?_⟩ <;> simp [orient]
  obtain ⟨w, hlen, hw, hsum, rfl⟩ := h
  have := closed_towards_sum S (InTri S) (fun q hq d hd t ht0 ht1 => inTri_step S q d t ht0 ht1 hd hq)
    S w a (fun _ hs => hs) hlen hw (by rw [hsum]) hq
  simpa [hsum] using this

/-- Three-point convex combinations are convex combinations of the whole list. -/
theorem isConvComb_of_three (S : List Pt) (p a b c : Pt) (ha : a ∈ S) (hb : b ∈ S) (hc : c ∈ S) (α β γ : Rat)
    (hα : 0 ≤ α) (hβ : 0 ≤ β) (hγ : 0 ≤ γ) (hsum : α + β + γ = 1)
    (h1 : p.1 = α * a.1 + β * b.1 + γ * c.1) (h2 : p.2 = α * a.2 + β * b.2 + γ * c.2) : IsConvComb S p := by
  by_cases h0 : β + γ = 0
  · have hb0 : β = 0 := by linarith
    have hc0 : γ = 0 := by linarith
    have ha1 : α = 1 := by linarith
    have : p = a := by ext <;> simp [h1, h2, ha1, hb0, hc0]
    rw [this]; exact isConvComb_mem S a ha
  · have hpos : 0 < β + γ := lt_of_le_of_ne (by linarith) (Ne.symm h0)
    have hr := isConvComb_lerp S b c (γ / (β + γ)) (div_nonneg hγ hpos.le) (by rw [div_le_one hpos]; linarith)
      (isConvComb_mem S b hb) (isConvComb_mem S c hc)
    have := isConvComb_lerp S a _ (β + γ) hpos.le (by linarith) (isConvComb_mem S a ha) hr
    have e : p = lerp (β + γ) a (lerp (γ / (β + γ)) b c) := by
      have hα' : α = 1 - (β + γ) := by linarith
      ext
      · simp only [lerp, h1, hα']; field_simp; ring
      · simp only [lerp, h2, hα']; field_simp; ring
    rw [e]; exact this

/-- **The model's hull predicate is exactly membership in the convex hull** (as convex combinations of the data). -/
theorem inHull_iff_convex_combination (S : List Pt) (p : Pt) (hnd : NonDegenerate S) :
    inHull S p = true ↔ IsConvComb S p := by
  constructor
  · intro h
    obtain ⟨a, ha, b, hb, c, hc, α, β, γ, hα, hβ, hγ, hsum, h1, h2⟩ := inHull_sound S p h
    exact isConvComb_of_three S p a b c ha hb hc α β γ hα hβ hγ hsum h1 h2
  · exact inHull_complete S p hnd

theorem lerp_eq_smul (t : Rat) (q d : Pt) : lerp t q d = (1 - t) • q + t • d := by
  ext <;> simp [lerp]

/-- Convex combinations of the list = Mathlib's `convexHull` of its set of members. -/
theorem isConvComb_iff_mem_convexHull (S : List Pt) (p : Pt) :
    IsConvComb S p ↔ p ∈ convexHull ℚ {x : ℚ × ℚ | x ∈ S} := by
  constructor
  · rintro ⟨w, hlen, hw, hsum, rfl⟩
    cases S with
    | nil =>
      have : w = [] := List.length_eq_zero_iff.mp (by simpa using hlen)
      subst this; simp at hsum
    | cons s S =>
      have := closed_towards_sum (s :: S) (fun q => q ∈ convexHull ℚ {x : ℚ × ℚ | x ∈ s :: S})
        (fun q hq d hd t ht0 ht1 => by
          rw [lerp_eq_smul]
          exact (convex_convexHull ℚ _) hq (subset_convexHull ℚ _ hd) (by linarith) ht0 (by ring))
        (s :: S) w s (fun _ h => h) hlen hw (by rw [hsum]) (subset_convexHull ℚ _ List.mem_cons_self)
      simpa [hsum] using this
  · intro h
    refine convexHull_min (s := {x : ℚ × ℚ | x ∈ S}) (t := {q | IsConvComb S q}) (fun x hx => isConvComb_mem S x hx) ?_ h
    intro x hx y hy a b ha hb hab
    have := isConvComb_lerp S x y b hb (by linarith) hx hy
    rw [lerp_eq_smul] at this
    have ea : a = 1 - b := by linarith
    rw [ea]; exact this

/-- **C16, first clause, for the model:** `convexhull_mask`'s model accepts exactly the points of the convex hull of the data
    (non-degenerate data; boundary included). -/
theorem inHull_iff_mem_convexHull (S : List Pt) (p : Pt) (hnd : NonDegenerate S) :
    inHull S p = true ↔ p ∈ convexHull ℚ {x : ℚ × ℚ | x ∈ S} := by
  rw [inHull_iff_convex_combination S p hnd, isConvComb_iff_mem_convexHull]

/-! ## The regenerated source (Gen/Mask.lean, translated from mask.py on every run) equals the model -/

theorem zip_normalised (a b : List Rat) (mx sx my sy : Rat) :
    (a.map fun v => (v - mx) / sx).zip (b.map fun v => (v - my) / sy) = (a.zip b).map (normalise mx sx my sy) := by
  rw [List.zip_map]
  apply List.map_congr_left
  intro p _
  rfl

theorem convexHullMask_normalise (mx sx my sy : Rat) (hsx : 0 < sx) (hsy : 0 < sy) (S Q : List Pt) :
    convexHullMask (S.map (normalise mx sx my sy)) (Q.map (normalise mx sx my sy)) = convexHullMask S Q := by
  unfold convexHullMask
  rw [List.map_map]
  apply List.map_congr_left
  intro q _
  exact inHull_normalise mx sx my sy hsx hsy S q

/-- the two coordinate arrays after the optional projection -/
def projected (proj : Option Proj) (e n : List Rat) : List Rat × List Rat :=
  match proj with
  | some p => (((e.zip n).map fun q => (p.apply q).1), ((e.zip n).map fun q => (p.apply q).2))
  | none => (e, n)

theorem gen_convexhull_mask_eq_model (std : List Rat → Rat) (de dn qe qn : List Rat) (drest qrest : List (List Rat)) (proj : Option Proj)
    (hse : 0 < std (projected proj de dn).1) (hsn : 0 < std (projected proj de dn).2) :
    Gen.convexhullMask std (de :: dn :: drest) (qe :: qn :: qrest) (proj.map Proj.apply)
      = convexHullMask ((projected proj de dn).1.zip (projected proj de dn).2) ((projected proj qe qn).1.zip (projected proj qe qn).2) := by
  unfold Gen.convexhullMask
  cases proj with
  | none =>
    simp only [projected] at hse hsn ⊢
    simp only [Option.map_none, List.take_succ_cons, List.take_zero, List.map_cons, List.map_nil, zip3With, delaunayContains,
      List.getD_cons_zero, List.getD_cons_succ, zip_normalised]
    exact convexHullMask_normalise _ _ _ _ hse hsn _ _
  | some p =>
    simp only [projected] at hse hsn ⊢
    simp only [Option.map_some, List.take_succ_cons, List.take_zero, applyProjTbl, List.getD_cons_zero, List.getD_cons_succ,
      List.map_cons, List.map_nil, zip3With, delaunayContains, zip_normalised]
    exact convexHullMask_normalise _ _ _ _ hse hsn _ _

/-- **C16 about the source as it is now:** entry `i` of what the regenerated `convexhull_mask` returns is true exactly when query point `i`
    (projected, if a projection is given) lies in the convex hull (Mathlib's `convexHull ℚ`) of the (projected) data points, boundary
    included — for data that are not all collinear and any `std` that is positive on the two data arrays. -/
theorem src_convexhull_mask_iff (std : List Rat → Rat) (de dn qe qn : List Rat) (drest qrest : List (List Rat)) (proj : Option Proj)
    (hse : 0 < std (projected proj de dn).1) (hsn : 0 < std (projected proj de dn).2)
    (hnd : NonDegenerate ((projected proj de dn).1.zip (projected proj de dn).2)) (i : Nat) (q : Pt)
    (hq : ((projected proj qe qn).1.zip (projected proj qe qn).2)[i]? = some q) :
    (Gen.convexhullMask std (de :: dn :: drest) (qe :: qn :: qrest) (proj.map Proj.apply))[i]? = some true ↔
      q ∈ convexHull ℚ {x : ℚ × ℚ | x ∈ (projected proj de dn).1.zip (projected proj de dn).2} := by
  rw [gen_convexhull_mask_eq_model std de dn qe qn drest qrest proj hse hsn, ← inHull_iff_mem_convexHull _ q hnd]
  unfold convexHullMask
  rw [List.getElem?_map, hq]
  simp

/-! Non-vacuity -/
example : NonDegenerate [(0, 0), (4, 0), (0, 4), (4, 4)] :=
  ⟨(0, 0), by simp, (4, 0), by simp, (0, 4), by simp, by decide +kernel⟩
example : IsConvComb [(0, 0), (4, 0), (0, 4), (4, 4)] (2, 2) :=
  ⟨[1/4, 1/4, 1/4, 1/4], rfl, by intro x hx; simp at hx; subst hx; norm_num, by norm_num, by simp [ptWsum]; norm_num⟩
example : inHull [(0, 0), (4, 0), (0, 4), (4, 4)] (2, 2) = true ∧ inHull [(0, 0), (4, 0), (0, 4), (4, 4)] (5, 5) = false := by
  decide +kernel
example : inTriangle (1, 1) (0, 0) (4, 0) (0, 4) = true := by decide +kernel

/-! ## `project_grid` as regenerated from the source (Gen/ProjectGrid.lean) -/

/-- The projected coordinates of the valid cells as `project_grid` computes them. -/
def projectedCells (valid : List (Rat × Rat × Rat)) (projection : Rat × Rat → Rat × Rat) : List Rat × List Rat :=
  ((valid.map fun c => (projection (c.1, c.2.1)).1), (valid.map fun c => (projection (c.1, c.2.1)).2))

theorem applyProjTbl_cells (valid : List (Rat × Rat × Rat)) (projection : Rat × Rat → Rat × Rat) :
    applyProjTbl projection [valid.map (·.1), valid.map (·.2.1)] = [(projectedCells valid projection).1, (projectedCells valid projection).2] := by
  simp [applyProjTbl, projectedCells, List.zip_map', Function.comp_def]

theorem shapeToSpacing_some (r : Region) (shape : Nat × Nat) (h1 : 2 ≤ shape.1) (h2 : 2 ≤ shape.2) :
    ∃ sn se, shapeToSpacing r shape false = some (sn, se) := by
  unfold shapeToSpacing
  have a : ¬ ((shape.1 : Int) - 1 = 0 ∨ (shape.2 : Int) - 1 = 0) := by omega
  simp only [Bool.false_eq_true, if_false, a]
  exact ⟨_, _, rfl⟩

theorem checkRegion_ok_eq (l : List Rat) (r : Region) (h : checkRegion l = .ok r) : l = [r.w, r.e, r.s, r.n] := by
  unfold checkRegion at h
  split at h
  · split_ifs at h
    cases h; rfl
  · cases h

theorem checkRegion_err (l : List Rat) (er : Err) (h : checkRegion l = .error er) : er = Err.valueError := by
  unfold checkRegion at h
  split at h
  · split_ifs at h <;> cases h <;> rfl
  · cases h; rfl

/-- The eagerly evaluated default spacing: either the region is not four numbers (both `shape_to_spacing` and `check_region` refuse it with a
    `ValueError`), or — with at least two nodes per direction — it is the spacing of that region. -/
theorem dflt_cases (reg : List Rat) (shape : Nat × Nat) (h1 : 2 ≤ shape.1) (h2 : 2 ≤ shape.2) :
    (shapeToSpacingList reg shape = .error .valueError ∧ ∀ r, checkRegion reg ≠ .ok r) ∨
    ∃ (w e s n sn se : Rat), reg = [w, e, s, n] ∧ shapeToSpacingList reg shape = .ok [sn, se] ∧ shapeToSpacing ⟨w, e, s, n⟩ shape false = some (sn, se) := by
  unfold shapeToSpacingList
  split
  · rename_i w e s n
    obtain ⟨sn, se, hsp⟩ := shapeToSpacing_some ⟨w, e, s, n⟩ shape h1 h2
    exact Or.inr ⟨w, e, s, n, sn, se, rfl, by rw [hsp], hsp⟩
  · rename_i hne
    refine Or.inl ⟨rfl, fun r hr => ?_⟩
    have := checkRegion_ok_eq _ _ hr
    exact hne _ _ _ _ this

/-- `projectGridLines` once the region is known. -/
def projectGridLinesFrom (reg : List Rat) (shape : Nat × Nat) (spacing : Option (List Rat)) : Except Err (List Rat × List Rat) := do
  let r ← checkRegion reg
  let sp ← match spacing with
    | some s => pure s
    | none => match shapeToSpacing r shape false with
      | some (sn, se) => pure [sn, se]
      | none => Except.error Err.zeroDiv
  gridLines reg ⟨none, some sp, .spacing, false⟩

theorem projectGridLines_from (pe pn : List Rat) (shape : Nat × Nat) (region : Option (List Rat)) (spacing : Option (List Rat)) (r : Region)
    (hg : getRegion pe pn = some r) :
    projectGridLines pe pn shape region spacing = projectGridLinesFrom (region.getD [r.w, r.e, r.s, r.n]) shape spacing := by
  unfold projectGridLines projectGridLinesFrom
  cases region <;> simp only [hg, Option.getD_none, Option.getD_some, bind, Except.bind, pure, Except.pure] <;>
    (split <;> [rfl; (cases spacing <;> [(simp only []; cases hh : shapeToSpacing _ shape false <;> [rfl; (rename_i p; cases p; rfl)]); rfl])])

/-- **Bridge.**  The grid `project_grid` interpolates onto, as regenerated from the source, is the model's `projectGridLines` of the PROJECTED
    coordinates of the valid cells (easting = the grid's second dimension) — region, shape and spacing taken from the keyword arguments when given,
    else the bounding box of the projected cells, the input's shape and `shape_to_spacing` — for every grid with a valid cell and at least two
    nodes per direction in the shape used; the interpolator is fitted on those projected coordinates, the result is masked with THEIR convex
    hull, the anti-aliasing block mean (if any) uses the output spacing on the region of the projected data, and a nameless grid is `scalars`. -/
theorem gen_project_grid_eq_model (grid_name : Option String) (grid_shape : Nat × Nat) (valid : List (Rat × Rat × Rat)) (projection : Rat × Rat → Rat × Rat)
    (antialias : Bool) (kw_region : Option (List Rat)) (kw_shape : Option (Nat × Nat)) (kw_spacing : Option (List Rat))
    (hv : valid ≠ []) (h1 : 2 ≤ (kw_shape.getD grid_shape).1) (h2 : 2 ≤ (kw_shape.getD grid_shape).2) :
    (Gen.projectGrid grid_name grid_shape valid projection antialias kw_region kw_shape kw_spacing).map (·.lines)
        = projectGridLines (projectedCells valid projection).1 (projectedCells valid projection).2 (kw_shape.getD grid_shape) kw_region kw_spacing ∧
    ∀ plan, Gen.projectGrid grid_name grid_shape valid projection antialias kw_region kw_shape kw_spacing = .ok plan →
      plan.name = grid_name.getD "scalars" ∧
      plan.fitOn = [(projectedCells valid projection).1, (projectedCells valid projection).2] ∧ plan.hullOf = plan.fitOn ∧
      (antialias = false → plan.reduce = none) ∧
      (antialias = true → ∃ sp r, plan.reduce = some (sp, [r.w, r.e, r.s, r.n]) ∧
          getRegion (projectedCells valid projection).1 (projectedCells valid projection).2 = some r ∧
          gridLines (kw_region.getD [r.w, r.e, r.s, r.n]) ⟨none, some sp, .spacing, false⟩ = .ok plan.lines)  := by
  have hpe : (projectedCells valid projection).1 ≠ [] := by simpa [projectedCells] using hv
  have hpn : (projectedCells valid projection).2 ≠ [] := by simpa [projectedCells] using hv
  obtain ⟨w, hw⟩ := listMin_isSome hpe
  obtain ⟨e, he⟩ := listMax_isSome hpe
  obtain ⟨s, hs⟩ := listMin_isSome hpn
  obtain ⟨n, hn⟩ := listMax_isSome hpn
  have hg : getRegion (projectedCells valid projection).1 (projectedCells valid projection).2 = some ⟨w, e, s, n⟩ := by
    simp [getRegion, hw, he, hs, hn]
  rw [projectGridLines_from _ _ _ _ _ ⟨w, e, s, n⟩ hg]
  unfold Gen.projectGrid projectGridLinesFrom
  simp only [applyProjTbl_cells, List.getD_cons_zero, List.getD_cons_succ, hg, bind, Except.bind, pure, Except.pure]
  generalize hreg : kw_region.getD [w, e, s, n] = reg
  rcases dflt_cases reg (kw_shape.getD grid_shape) h1 h2 with ⟨hl, hno⟩ | ⟨w', e', s', n', sn, se, hr, hl, hsp⟩
  · simp only [hl]
    cases hc : checkRegion reg with
    | error er =>
      have her : er = Err.valueError := checkRegion_err _ _ hc
      subst her
      exact ⟨rfl, fun plan h => by cases h⟩
    | ok r => exact absurd hc (hno r)
  · simp only [hl]
    cases hc : checkRegion reg with
    | error er => exact ⟨rfl, fun plan h => by cases h⟩
    | ok r =>
      have hreg' := checkRegion_ok_eq _ _ hc
      have hr' : r = ⟨w', e', s', n'⟩ := by
        rw [hr] at hreg'
        simp only [List.cons.injEq, and_true] at hreg'
        obtain ⟨a1, a2, a3, a4⟩ := hreg'
        cases r; simp_all
      subst hr'
      simp only [hsp]
      cases kw_spacing with
      | none =>
        simp only [Option.getD_none]
        cases hlines : gridLines reg ⟨none, some [sn, se], .spacing, false⟩ with
        | error er => exact ⟨rfl, fun plan h => by cases h⟩
        | ok lines =>
          refine ⟨rfl, fun plan h => ?_⟩
          cases h
          exact ⟨by cases grid_name <;> rfl, rfl, rfl, fun ha => by simp [ha], fun ha => ⟨[sn, se], ⟨w, e, s, n⟩, by simp [ha], rfl, by rw [hreg]; exact hlines⟩⟩
      | some sp =>
        simp only [Option.getD_some]
        cases hlines : gridLines reg ⟨none, some sp, .spacing, false⟩ with
        | error er => exact ⟨rfl, fun plan h => by cases h⟩
        | ok lines =>
          refine ⟨rfl, fun plan h => ?_⟩
          cases h
          exact ⟨by cases grid_name <;> rfl, rfl, rfl, fun ha => by simp [ha], fun ha => ⟨sp, ⟨w, e, s, n⟩, by simp [ha], rfl, by rw [hreg]; exact hlines⟩⟩

end Verde.C16
