/-
  C08 — block_split assigns every point to the one block that contains it.
  Block centres are the pixel-registered grid of the region (C07 normal forms give
  `east = nodes W dx ne true`, `north = nodes S dy nn true`); labels are nearest-centre indices.
-/
import VerdeModel.Gen.BlockSplit
import VerdeModel.Lemmas.Blocks
import VerdeModel.Props.C07
namespace Verde.C08
open Verde

/-- Blocks are numbered row-major from the south-west corner: block `i·ne + j` is row `i` (south→north),
    column `j` (west→east). -/
theorem centres_row_major (east north : List Rat) (i j : Nat) (hi : i < north.length) (hj : j < east.length) :
    (centresOf east north)[i * east.length + j]? = some (east.getD j 0, north.getD i 0) := by
  have hne : 0 < east.length := by omega
  have hlt : i * east.length + j < (centresOf east north).length := by
    rw [centresOf_length]
    calc i * east.length + j < i * east.length + east.length := by omega
      _ = (i + 1) * east.length := by ring
      _ ≤ north.length * east.length := Nat.mul_le_mul_right _ hi
  rw [List.getElem?_eq_getElem hlt, centresOf_getElem]
  have h1 : (i * east.length + j) % east.length = j := by
    rw [Nat.mul_add_mod_of_lt hj]
  have h2 : (i * east.length + j) / east.length = i := by
    rw [Nat.add_comm, Nat.add_mul_div_right _ _ hne, Nat.div_eq_of_lt hj]; simp
  rw [h1, h2]

/-- Every label is a valid block index and its centre is a nearest centre. -/
theorem label_valid_and_nearest (centres : List (Rat × Rat)) (hne : centres ≠ []) (p : Rat × Rat) :
    ∃ h : labelOf centres p < centres.length,
      ∀ k (hk : k < centres.length),
        sqDist p.1 p.2 centres[labelOf centres p].1 centres[labelOf centres p].2 ≤
          sqDist p.1 p.2 centres[k].1 centres[k].2 := by
  have hds : (centres.map fun c => sqDist p.1 p.2 c.1 c.2) ≠ [] := by simpa using hne
  obtain ⟨hlt, hmin⟩ := argminIdx_spec _ hds
  have hlt' : labelOf centres p < centres.length := by simpa [labelOf] using hlt
  refine ⟨hlt', ?_⟩
  intro k hk
  have := hmin k (by simpa using hk)
  simpa [labelOf] using this

/-- **Containing block.**  A point strictly inside block (row `i`, column `j`) — or outside the region on a side
    where `(i, j)` is the border block — receives exactly the label `i·ne + j`, for any block sizes `dx, dy > 0`
    (non-square blocks, single-row/column layouts included). -/
theorem label_containing_block (W S dx dy : Rat) (ne nn : Nat) (hdx : 0 < dx) (hdy : 0 < dy)
    (x y : Rat) (i j : Nat) (hi : i < nn) (hj : j < ne)
    (hxlo : j = 0 ∨ W + (j : Rat) * dx < x) (hxhi : j + 1 = ne ∨ x < W + ((j : Rat) + 1) * dx)
    (hylo : i = 0 ∨ S + (i : Rat) * dy < y) (hyhi : i + 1 = nn ∨ y < S + ((i : Rat) + 1) * dy) :
    labelOf (centresOf (nodes W dx ne true) (nodes S dy nn true)) (x, y) = i * ne + j := by
  have hle : (nodes W dx ne true).length = ne := by simp [nodes_length]
  have hln : (nodes S dy nn true).length = nn := by simp [nodes_length]
  have hnepos : 0 < ne := by omega
  have hm : i * ne + j < nn * ne := by
    calc i * ne + j < i * ne + ne := by omega
      _ = (i + 1) * ne := by ring
      _ ≤ nn * ne := Nat.mul_le_mul_right _ hi
  unfold labelOf
  have hmlen : i * ne + j <
      ((centresOf (nodes W dx ne true) (nodes S dy nn true)).map fun c => sqDist x y c.1 c.2).length := by
    simp only [List.length_map, centresOf_length, hle, hln]; exact hm
  apply argminIdx_unique _ _ hmlen
  · intro k hk hkm
    simp only [List.length_map, centresOf_length, hle, hln] at hk
    rw [List.getElem_map, List.getElem_map, centresOf_getElem, centresOf_getElem]
    simp only [hle, hln]
    have h1 : (i * ne + j) % ne = j := by rw [Nat.mul_add_mod_of_lt hj]
    have h2 : (i * ne + j) / ne = i := by
      rw [Nat.add_comm, Nat.add_mul_div_right _ _ hnepos, Nat.div_eq_of_lt hj]; simp
    have hj' : k % ne < ne := Nat.mod_lt _ hnepos
    have hi' : k / ne < nn := by
      rw [Nat.div_lt_iff_lt_mul hnepos]; exact hk
    rw [h1, h2, nodes_pixel_getD _ _ _ _ hj, nodes_pixel_getD _ _ _ _ hi,
      nodes_pixel_getD _ _ _ _ hj', nodes_pixel_getD _ _ _ _ hi']
    have hdecomp : k = (k / ne) * ne + k % ne := by
      have := Nat.div_add_mod k ne; rw [Nat.mul_comm] at this; omega
    unfold sqDist
    have ex : ∀ a : Rat, a * a = a ^ 2 := fun a => by ring
    rw [ex, ex, ex, ex]
    by_cases hjj : k % ne = j
    · have hii : k / ne ≠ i := by
        intro hii; apply hkm; rw [hdecomp, hjj, hii]
      have hy := nearest_centre_1d S dy y nn i (k / ne) hdy hi' hylo hyhi hii
      rw [hjj]; linarith
    · have hx := nearest_centre_1d W dx x ne j (k % ne) hdx hj' hxlo hxhi hjj
      by_cases hii : k / ne = i
      · rw [hii]; linarith
      · have hy := nearest_centre_1d S dy y nn i (k / ne) hdy hi' hylo hyhi hii
        linarith

/-- Strictly-inside special case, as stated in the property. -/
theorem label_strictly_inside (W S dx dy : Rat) (ne nn : Nat) (hdx : 0 < dx) (hdy : 0 < dy)
    (x y : Rat) (i j : Nat) (hi : i < nn) (hj : j < ne)
    (hx : W + (j : Rat) * dx < x ∧ x < W + ((j : Rat) + 1) * dx)
    (hy : S + (i : Rat) * dy < y ∧ y < S + ((i : Rat) + 1) * dy) :
    labelOf (centresOf (nodes W dx ne true) (nodes S dy nn true)) (x, y) = i * ne + j :=
  label_containing_block W S dx dy ne nn hdx hdy x y i j hi hj (Or.inr hx.1) (Or.inr hx.2) (Or.inr hy.1) (Or.inr hy.2)

/-- Points west/south of the region go to the first column/row, points east/north of it to the last. -/
theorem label_outside_clamps_southwest (W S dx dy : Rat) (ne nn : Nat) (hdx : 0 < dx) (hdy : 0 < dy)
    (x y : Rat) (hne : 0 < ne) (hnn : 0 < nn) (hx : x < W + dx) (hy : y < S + dy) :
    labelOf (centresOf (nodes W dx ne true) (nodes S dy nn true)) (x, y) = 0 := by
  have := label_containing_block W S dx dy ne nn hdx hdy x y 0 0 hnn hne (Or.inl rfl)
    (Or.inr (by simpa using hx)) (Or.inl rfl) (Or.inr (by simpa using hy))
  simpa using this

theorem label_outside_clamps_northeast (W S dx dy : Rat) (ne nn : Nat) (hdx : 0 < dx) (hdy : 0 < dy)
    (x y : Rat) (hne : 0 < ne) (hnn : 0 < nn)
    (hx : W + ((ne - 1 : Nat) : Rat) * dx < x) (hy : S + ((nn - 1 : Nat) : Rat) * dy < y) :
    labelOf (centresOf (nodes W dx ne true) (nodes S dy nn true)) (x, y) = (nn - 1) * ne + (ne - 1) :=
  label_containing_block W S dx dy ne nn hdx hdy x y (nn - 1) (ne - 1) (by omega) (by omega)
    (Or.inr hx) (Or.inl (by omega)) (Or.inr hy) (Or.inl (by omega))

/-- Labels follow the raveled order of the input: label `k` belongs to point `k`. -/
theorem labels_follow_input_order (es ns : List Rat) (b : BlockSpec) (cs : List (Rat × Rat)) (ls : List Nat)
    (h : blockSplit es ns b = .ok (cs, ls)) : ls = (es.zip ns).map (labelOf cs) := by
  unfold blockSplit at h
  obtain ⟨reg, _, h⟩ := except_bind_ok _ _ _ h
  obtain ⟨lines, _, h⟩ := except_bind_ok _ _ _ h
  simp only [pure, Except.pure, Except.ok.injEq, Prod.mk.injEq] at h
  obtain ⟨h1, h2⟩ := h
  subst h1; exact h2.symm

/-- The block coordinates are the pixel-registered grid of the region (given, or the bounding box of the data). -/
theorem centres_are_pixel_grid (es ns : List Rat) (b : BlockSpec) (cs : List (Rat × Rat)) (ls : List Nat)
    (h : blockSplit es ns b = .ok (cs, ls)) :
    ∃ reg east north, blockRegion es ns b = .ok reg ∧
      gridLines reg ⟨b.shape, b.spacing, b.adjust, true⟩ = .ok (east, north) ∧ cs = centresOf east north := by
  unfold blockSplit at h
  obtain ⟨reg, hreg, h⟩ := except_bind_ok _ _ _ h
  obtain ⟨lines, hl, h⟩ := except_bind_ok _ _ _ h
  simp only [pure, Except.pure, Except.ok.injEq, Prod.mk.injEq] at h
  exact ⟨reg, lines.1, lines.2, hreg, hl, h.1.symm⟩

/-! Non-vacuity -/
example : labelOf (centresOf (nodes 0 1 4 true) (nodes 0 2 1 true)) (5/2, 1/3) = 2 := by decide +kernel
example : blockSplit [1/2, 7/2] [1/2, 3/2] ⟨some [0, 4, 0, 2], none, some [1, 2], .spacing⟩ =
    .ok ([(1, 1/2), (3, 1/2), (1, 3/2), (3, 3/2)], [0, 3]) := by decide +kernel

/-! ### Bridge: the block grid of `block_split` regenerated from source -/

/-- The list form of a 4-tuple region. -/
def quadList (q : Rat × Rat × Rat × Rat) : List Rat := [q.1, q.2.1, q.2.2.1, q.2.2.2]

theorem quadOfOpts_getRegion (es ns : List Rat) :
    quadOfOpts (Gen.getRegion es ns) = match getRegion es ns with
      | some r => .ok (r.w, r.e, r.s, r.n) | none => .error .valueError := by
  unfold Gen.getRegion getRegion quadOfOpts
  cases listMin es <;> cases listMax es <;> cases listMin ns <;> cases listMax ns <;> rfl

/-- **Bridge.**  `block_split` up to `block_coords = grid_coordinates(...)` as regenerated STATEMENT BY STATEMENT from /repo's source text on
    every run (the default region `get_region(coordinates)` when none is given — `ValueError` for empty arrays —, then the call to the
    translated `grid_coordinates` core with `pixel_register=True` and the caller's spacing / shape / adjust) equals the model's block grid
    (`blockRegion` then `gridLines … pixel = true`) for every point set, optional region, shape, spacing list and adjust string.  This is the
    grid whose nodes are the block centres used by C08–C11. -/
theorem gen_block_lines_eq_model (es ns : List Rat) (region : Option (Rat × Rat × Rat × Rat)) (shape : Option (Nat × Nat))
    (spacing : Option (List Rat)) (adj : String) :
    Gen.blockLines es ns spacing adj region (shape.map fun p => ((p.1 : Int), (p.2 : Int)))
      = (blockRegion es ns ⟨region.map quadList, shape, spacing, C07.adjOf adj⟩).bind fun reg =>
          gridLines reg ⟨shape, spacing, C07.adjOf adj, true⟩ := by
  unfold Gen.blockLines
  cases region with
  | some r =>
    obtain ⟨w, e, s, n⟩ := r
    simp only [blockRegion, Option.map, quadList, Except.bind, bind, pure, Except.pure]
    have := C07.gen_grid_lines_eq_model w e s n shape spacing adj true
    simp only [Option.map] at this
    rw [this]
    cases gridLines [w, e, s, n] ⟨shape, spacing, C07.adjOf adj, true⟩ <;> rfl
  | none =>
    simp only [blockRegion, Option.map, quadOfOpts_getRegion, bind, Except.bind, pure, Except.pure]
    cases hg : getRegion es ns with
    | none => rfl
    | some r =>
      simp only []
      have := C07.gen_grid_lines_eq_model r.w r.e r.s r.n shape spacing adj true
      simp only [Option.map] at this
      rw [this]
      cases gridLines [r.w, r.e, r.s, r.n] ⟨shape, spacing, C07.adjOf adj, true⟩ <;> rfl


/-! ## `block_split` as a whole, regenerated from the source (Gen/BlockSplit.lean) -/

/-- **Bridge.**  `block_split` as regenerated from the source (prelude + nearest-centre query) is the model's `blockSplit`. -/
theorem gen_block_split_eq_model (es ns : List Rat) (region : Option (Rat × Rat × Rat × Rat)) (shape : Option (Nat × Nat))
    (spacing : Option (List Rat)) (adj : String) :
    Gen.blockSplit es ns spacing adj region (shape.map fun p => ((p.1 : Int), (p.2 : Int)))
      = blockSplit es ns ⟨region.map quadList, shape, spacing, C07.adjOf adj⟩ := by
  unfold Gen.blockSplit blockSplit
  rw [gen_block_lines_eq_model]
  cases blockRegion es ns ⟨region.map quadList, shape, spacing, C07.adjOf adj⟩ with
  | error e => rfl
  | ok reg =>
    simp only [Except.bind, bind]
    try (cases gridLines reg ⟨shape, spacing, C07.adjOf adj, true⟩ <;> rfl)

/-- **Containing block = label, about the source as it is now:** whatever `block_split` returns, every label is the index of a nearest block centre
    among the centres it returns (the model's `label_valid_and_nearest` transported along the bridge). -/
theorem src_block_split_labels (es ns : List Rat) (region : Option (Rat × Rat × Rat × Rat)) (shape : Option (Nat × Nat))
    (spacing : Option (List Rat)) (adj : String) (centres : List (Rat × Rat)) (labels : List Nat)
    (h : Gen.blockSplit es ns spacing adj region (shape.map fun p => ((p.1 : Int), (p.2 : Int))) = .ok (centres, labels)) :
    labels = (es.zip ns).map (labelOf centres) := by
  rw [gen_block_split_eq_model] at h
  unfold blockSplit at h
  simp only [bind, Except.bind, pure, Except.pure] at h
  repeat' split at h
  all_goals first
    | (cases h; rfl)
    | cases h

end Verde.C08
