/-
  C12 — Scores come from models fitted on training data only, with the stated metric.
  `Est σ` is an arbitrary estimator (pure functions), so "the estimator passed in is left untouched" holds by
  construction in the model and is *observed* on the implementation by the harness (attribute dict compared).
  Thread-level interleavings inside numpy/scikit-learn are outside the model: `schedule_independent` is a theorem about the
  task-event model (each task owns its clone); the harness adds runs under dask's synchronous/threaded schedulers.
-/
import VerdeModel.Gen.ModelSel
import VerdeModel.Gen.Score
import VerdeModel.Model.Score
import VerdeModel.Lemmas.CV
namespace Verde.C12
open Verde

/-- `select` keeps rows aligned: entry `k` of every selected array is entry `idx[k]` of its source. -/
theorem select_aligned (a : List Rat) (idx : List Nat) (k : Nat) (hk : k < idx.length) :
    (selectIdx a idx)[k]? = some (a.getD idx[k] 0) := by
  simp [selectIdx, List.getElem?_map, List.getElem?_eq_getElem hk]

theorem rows_select_aligned (r : Rows) (idx : List Nat) :
    (r.select idx).coords = r.coords.map (selectIdx · idx) ∧ (r.select idx).data = r.data.map (selectIdx · idx) ∧
    (r.select idx).weights = r.weights.map fun ws => ws.map (selectIdx · idx) := ⟨rfl, rfl, rfl⟩

/-- Selection only looks at the selected indices. -/
theorem select_congr (a a' : List Rat) (idx : List Nat) (h : ∀ i ∈ idx, a.getD i 0 = a'.getD i 0) :
    selectIdx a idx = selectIdx a' idx := by
  unfold selectIdx
  exact List.map_congr_left h

/-- The score of a split is the metric of a model fitted on the training rows only and evaluated on the test rows only. -/
theorem cv_split_score {σ : Type} (E : Est σ) (s : Scoring) (rows : Rows) (tr te : List Nat) :
    crossValScore E s rows [(tr, te)] =
      [scoreEstimator s (E.predict (E.fit (rows.select tr)) (rows.select te).coords) (rows.select te)] := rfl

/-- **Only training data reach `fit`.**  If two datasets agree on the training rows of a split, the fitted states
    coincide — changing any test row leaves the fitted model unchanged. -/
theorem cv_uses_only_train {σ : Type} (E : Est σ) (rows rows' : Rows) (tr : List Nat)
    (h : rows.select tr = rows'.select tr) : E.fit (rows.select tr) = E.fit (rows'.select tr) := by rw [h]

/-- **Only test data are scored.**  If two datasets agree on the training rows and on the test rows of a split, the
    scores coincide (rows outside the split are irrelevant). -/
theorem cv_scores_only_split {σ : Type} (E : Est σ) (s : Scoring) (rows rows' : Rows) (tr te : List Nat)
    (htr : rows.select tr = rows'.select tr) (hte : rows.select te = rows'.select te) :
    fitScore E s (rows.select tr) (rows.select te) = fitScore E s (rows'.select tr) (rows'.select te) := by
  rw [htr, hte]

theorem cv_one_score_per_split {σ : Type} (E : Est σ) (s : Scoring) (rows : Rows) (splits : List (List Nat × List Nat)) :
    (crossValScore E s rows splits).length = splits.length := by simp [crossValScore]

/-- `train_test_split` returns complementary, aligned subsets: with `train = complement n test` every row index is on
    exactly one side and both sides are selected with the same index list for coordinates, data and weights. -/
theorem tts_complementary (rows : Rows) (n : Nat) (test : List Nat) (i : Nat) (hi : i < n) :
    trainTestSplit rows (complement n test, test) = (rows.select (complement n test), rows.select test) ∧
    ((i ∈ complement n test ∨ i ∈ test) ∧ ¬ (i ∈ complement n test ∧ i ∈ test)) := by
  refine ⟨rfl, ?_, ?_⟩
  · by_cases h : i ∈ test
    · exact Or.inr h
    · exact Or.inl ((mem_complement n test i).mpr ⟨hi, h⟩)
  · rintro ⟨h1, h2⟩; exact ((mem_complement n test i).mp h1).2 h2

theorem idxOf_le_of_getElem_eq (xs : List Rat) (m : Rat) (k : Nat) (hk : k < xs.length) (h : xs[k] = m) :
    xs.idxOf m ≤ k := by
  induction xs generalizing k with
  | nil => simp at hk
  | cons x xs ih =>
    rw [List.idxOf_cons]
    cases k with
    | zero => simp only [List.getElem_cons_zero] at h; simp [h]
    | succ k =>
      simp only [List.getElem_cons_succ] at h
      have := ih k (by simpa using hk) h
      cases (x == m) <;> simp <;> omega

theorem wsum_zeros (ws : List Rat) (n : Nat) : wsum ws (List.replicate n 0) = 0 := by
  unfold wsum
  induction ws generalizing n with
  | nil => simp
  | cons a as ih =>
    cases n with
    | zero => simp
    | succ n => simp [List.replicate_succ, ih n]

/-- `numpy.argmax`: a valid index of a maximal element, the first one among ties. -/
theorem argmax_spec (xs : List Rat) (hne : xs ≠ []) :
    ∃ h : argmaxIdx xs < xs.length, (∀ k (hk : k < xs.length), xs[k] ≤ xs[argmaxIdx xs]) ∧
      (∀ k (hk : k < xs.length), xs[k] = xs[argmaxIdx xs] → argmaxIdx xs ≤ k) := by
  obtain ⟨m, hm⟩ := listMax_isSome hne
  have hmem := listMax_mem hm
  have hidx : xs.idxOf m < xs.length := List.idxOf_lt_length_iff.mpr hmem
  have harg : argmaxIdx xs = xs.idxOf m := by simp [argmaxIdx, hm]
  have hval : xs[argmaxIdx xs]'(by rw [harg]; exact hidx) = m := by
    simp only [harg]; exact List.getElem_idxOf hidx
  refine ⟨by rw [harg]; exact hidx, ?_, ?_⟩
  · intro k hk; rw [hval]; exact listMax_ge hm _ (List.getElem_mem hk)
  · intro k hk hkeq
    rw [hval] at hkeq
    rw [harg]
    exact idxOf_le_of_getElem_eq xs m k hk hkeq

/-- SplineCV selects the candidate with the highest mean cross-validated score (first among ties). -/
theorem splinecv_selects_max (scores : List (List Rat)) (hne : scores ≠ []) :
    ∃ h : splineCVSelect scores < scores.length,
      ∀ k (hk : k < scores.length),
        scores[k].sum / (scores[k].length : Rat) ≤
          scores[splineCVSelect scores].sum / (scores[splineCVSelect scores].length : Rat) := by
  have hne' : (scores.map fun s => s.sum / (s.length : Rat)) ≠ [] := by simpa using hne
  obtain ⟨h, hmax, _⟩ := argmax_spec _ hne'
  refine ⟨by simpa [splineCVSelect] using h, ?_⟩
  intro k hk
  have := hmax k (by simpa using hk)
  simpa [splineCVSelect] using this

/-- Weighted R²: a perfect prediction scores exactly 1. -/
theorem r2_perfect (y : List Rat) (w : Option (List Rat)) (hlen : 2 ≤ y.length) : metric .r2 y y w = some 1 := by
  unfold metric
  have hz : List.zipWith (· - ·) y y = y.map fun _ => (0 : Rat) := by
    induction y with
    | nil => rfl
    | cons a as ih => cases as <;> simp_all [List.zipWith]
  have hlt : ¬ y.length < 2 := by omega
  have hnum : ∀ ws : List Rat, wsum ws ((y.map fun _ => (0 : Rat)).map fun r => r * r) = 0 := by
    intro ws
    have : ((y.map fun _ => (0 : Rat)).map fun r => r * r) = List.replicate y.length 0 := by simp
    rw [this]; exact wsum_zeros ws _
  simp only [hlt, if_false, hz, hnum]
  split_ifs <;> simp

/-- The score is the mean over data components (component `i` scored with weight component `i`). -/
theorem score_mean_over_components (s : Scoring) (pred : List (List Rat)) (rows : Rows) (per : List Rat)
    (hper : (List.range rows.data.length).mapM (fun i =>
      metric s (rows.data.getD i []) (pred.getD i []) (rows.weights.bind (·[i]?))) = some per) (hne : per ≠ []) :
    scoreEstimator s pred rows = some (per.sum / (per.length : Rat)) := by
  unfold scoreEstimator
  rw [hper]
  cases per with
  | nil => exact absurd rfl hne
  | cons p ps => simp

/-! ### Schedules -/

/-- Task ids of the `score` events, in order of occurrence. -/
def scoreEvents : List Ev → List Nat
  | [] => []
  | .score k :: l => k :: scoreEvents l
  | .fit _ :: l => scoreEvents l

/-- A schedule respects per-task order when every `score k` comes after a `fit k`. -/
def WellFormed (sched : List Ev) : Prop :=
  ∀ pre k post, sched = pre ++ Ev.score k :: post → Ev.fit k ∈ pre

theorem runOwned_aux {σ α : Type} (fitVal : Nat → σ) (scoreOf : Nat → σ → α) (l : List Ev)
    (st : (Nat → Option σ) × List (Nat × Option α))
    (h : ∀ pre k post, l = pre ++ Ev.score k :: post → (Ev.fit k ∈ pre ∨ st.1 k = some (fitVal k))) :
    (l.foldl (stepOwned fitVal scoreOf) st).2 =
      st.2 ++ (scoreEvents l).map fun k => (k, some (scoreOf k (fitVal k))) := by
  induction l generalizing st with
  | nil => simp [scoreEvents]
  | cons ev l ih =>
    simp only [List.foldl_cons]
    cases ev with
    | fit j =>
      rw [ih]
      · simp [stepOwned, scoreEvents]
      · intro pre k post hl
        have := h (Ev.fit j :: pre) k post (by simp [hl])
        rcases this with hm | hs
        · rcases List.mem_cons.mp hm with e | e
          · right; cases e; simp [stepOwned]
          · left; exact e
        · right
          simp only [stepOwned]
          split_ifs with hkj
          · subst hkj; rfl
          · exact hs
    | score j =>
      have hj : st.1 j = some (fitVal j) := by
        rcases h [] j l rfl with hm | hs
        · simp at hm
        · exact hs
      rw [ih]
      · simp [stepOwned, scoreEvents, hj]
      · intro pre k post hl
        have := h (Ev.score j :: pre) k post (by simp [hl])
        rcases this with hm | hs
        · rcases List.mem_cons.mp hm with e | e
          · cases e
          · left; exact e
        · right; simpa [stepOwned] using hs

/-- **Schedule independence.**  When every task owns its clone, any interleaving of the task events that respects per-task
    order records, for each task, exactly the score of the model fitted on that task's training data — the same values as
    the serial execution, whatever the order. -/
theorem schedule_independent {σ α : Type} (fitVal : Nat → σ) (scoreOf : Nat → σ → α) (sched : List Ev)
    (hwf : WellFormed sched) :
    (runOwned fitVal scoreOf sched).2 = (scoreEvents sched).map fun k => (k, some (scoreOf k (fitVal k))) := by
  unfold runOwned
  rw [runOwned_aux fitVal scoreOf sched _ (fun pre k post hl => Or.inl (hwf pre k post hl))]
  simp

/-- Without the per-task clone the result depends on the schedule: with a shared estimator the interleaving
    `fit 0, fit 1, score 0, score 1` scores task 0 with the model fitted for task 1. -/
theorem schedule_dependent_without_clone :
    (runShared (fun k => k) (fun _ s => s) [.fit 0, .score 0, .fit 1, .score 1]).2 = [(0, some 0), (1, some 1)] ∧
    (runShared (fun k => k) (fun _ s => s) [.fit 0, .fit 1, .score 0, .score 1]).2 = [(0, some 1), (1, some 1)] ∧
    (runOwned (fun k => k) (fun _ s => s) [.fit 0, .fit 1, .score 0, .score 1]).2 = [(0, some 0), (1, some 1)] := by
  decide

/-! Non-vacuity -/
example : WellFormed [.fit 0, .fit 1, .score 1, .score 0] := by
  intro pre k post h
  match pre, h with
  | [], h => simp at h
  | [_], h => simp at h
  | [_, _], h => simp only [List.cons_append, List.nil_append, List.cons.injEq] at h; obtain ⟨rfl, rfl, h3, _⟩ := h; cases h3; simp
  | [_, _, _], h =>
    simp only [List.cons_append, List.nil_append, List.cons.injEq] at h
    obtain ⟨rfl, rfl, rfl, h4, _⟩ := h; cases h4; simp
  | _ :: _ :: _ :: _ :: _, h => simp at h
example : crossValScore momentEst .r2 ⟨[[0, 1, 2, 3], [0, 2, 1, 3]], [[1, 2, 4, 8]], none⟩ [([0, 1], [2, 3]), ([2, 3], [0, 1])]
    = [some (-1127781/262144), some (-187377/2048)] := by decide +kernel
example : metric .r2 [1, 2, 3, 4] [1, 2, 3, 5] none = some (4/5) := by decide +kernel

/-! ### Bridges: `select`, `fit_score` and the loop of `cross_val_score` regenerated from source -/

/-- **Bridge.**  `select` as regenerated from /repo's source text on every run is the model's row selection (`None` weights stay `None`). -/
theorem gen_select_eq_model (arrays : Option (List (List Rat))) (index : List Nat) :
    Gen.select arrays index = arrays.map (selectAll · index) := by
  cases arrays <;> rfl

theorem gen_select_rows (r : Rows) (index : List Nat) :
    (⟨(Gen.select (some r.coords) index).getD [], (Gen.select (some r.data) index).getD [], Gen.select r.weights index⟩ : Rows)
      = r.select index := by
  simp [gen_select_eq_model, Rows.select]

/-- **Bridge.**  `fit_score` as regenerated from /repo's source text on every run: fit on the training rows, then the requested metric (R² when
    none is given) of the prediction at the test coordinates against the test rows. -/
theorem gen_fit_score_eq_model {σ : Type} (E : Est σ) (train test : Rows) (scoring : Option Scoring) :
    Gen.fitScore E train test scoring = fitScore E (scoring.getD .r2) train test := by
  cases scoring <;> rfl

/-- **Bridge.**  The loop of `cross_val_score` as regenerated from /repo's source text on every run — `for train_index, test_index in cv.split(..)`,
    a clone of the estimator per split, `select(i, train_index)` over `(coordinates, data, weights)` as the second argument of `fit_score` and
    `select(i, test_index)` as the third, one score appended per split — equals the model's `crossValScore` for every estimator, dataset,
    split list and scorer.  (Which index set reaches `fit` and which reaches the scorer is read from the source text, not assumed.) -/
theorem gen_cross_val_score_eq_model {σ : Type} (E : Est σ) (rows : Rows) (splits : List (List Nat × List Nat)) (scoring : Option Scoring) :
    Gen.crossValScore E rows splits scoring = crossValScore E (scoring.getD .r2) rows splits := by
  unfold Gen.crossValScore crossValScore
  apply List.map_congr_left
  intro sp _
  obtain ⟨tr, te⟩ := sp
  simp only [gen_select_rows, gen_fit_score_eq_model]

/-! ### The regenerated source satisfies the property -/
/-- The translated `cross_val_score` loop: one score per split, each the metric of a model fitted on the training rows only and evaluated on
    the test rows only (rows outside the split cannot influence it). -/
theorem src_cross_val_score {σ : Type} (E : Est σ) (scoring : Option Scoring) (rows : Rows) (splits : List (List Nat × List Nat)) :
    (Gen.crossValScore E rows splits scoring).length = splits.length ∧
    Gen.crossValScore E rows splits scoring = splits.map fun sp => fitScore E (scoring.getD .r2) (rows.select sp.1) (rows.select sp.2) := by
  rw [gen_cross_val_score_eq_model]
  exact ⟨by simp [crossValScore], rfl⟩

/-! ## `SplineCV.fit`'s selection and `train_test_split`'s row selection as regenerated from the source (Gen/ModelSel.lean) -/

/-- The grid of candidates in the order `SplineCV` visits it: `mindists` outer, `dampings` inner. -/
def cvGrid (mindists dampings : List Rat) : List (Rat × Rat) := mindists.flatMap fun m => dampings.map fun d => (m, d)

/-- **Bridge.**  The selection of `SplineCV.fit` as regenerated from the source: `scores_` are the mean cross-validated scores of the candidates in
    grid order, `best` is the model's arg-max (first among ties) and `spline_` carries the `(mindist, damping)` of that very candidate. -/
theorem gen_spline_cv_fit_eq_model (mindists dampings : List Rat) (cv : Rat → Rat → List Rat) :
    Gen.splineCVFit mindists dampings cv =
      ((cvGrid mindists dampings).map (fun p => listMean (cv p.1 p.2)),
       splineCVSelect ((cvGrid mindists dampings).map fun p => cv p.1 p.2),
       (cvGrid mindists dampings)[splineCVSelect ((cvGrid mindists dampings).map fun p => cv p.1 p.2)]?) := by
  unfold Gen.splineCVFit splineCVSelect cvGrid
  simp only [List.map_map, Function.comp_def, listMean]

/-- **Bridge.**  The row selection of `train_test_split` as regenerated from the source. -/
theorem gen_train_test_split_eq_model (rows : Rows) (split : List Nat × List Nat) :
    Gen.trainTestSplit rows split = trainTestSplit rows split := rfl
/-- **SplineCV picks the arg-max — about the source as it is now:** with at least one candidate, `spline_` is built from a candidate of the grid
    and no candidate has a higher mean cross-validated score than it. -/
theorem src_spline_cv_selects_max (mindists dampings : List Rat) (cv : Rat → Rat → List Rat) (hne : cvGrid mindists dampings ≠ []) :
    ∃ p, (Gen.splineCVFit mindists dampings cv).2.2 = some p ∧ p ∈ cvGrid mindists dampings ∧
      ∀ q ∈ cvGrid mindists dampings, listMean (cv q.1 q.2) ≤ listMean (cv p.1 p.2) := by
  rw [gen_spline_cv_fit_eq_model]
  have hne' : ((cvGrid mindists dampings).map fun p => cv p.1 p.2) ≠ [] := by simpa using hne
  obtain ⟨h, hmax⟩ := splinecv_selects_max _ hne'
  have hlt : splineCVSelect ((cvGrid mindists dampings).map fun p => cv p.1 p.2) < (cvGrid mindists dampings).length := by simpa using h
  refine ⟨(cvGrid mindists dampings)[splineCVSelect ((cvGrid mindists dampings).map fun p => cv p.1 p.2)], ?_, List.getElem_mem hlt, ?_⟩
  · simp only [List.getElem?_eq_getElem hlt]
  · intro q hq
    obtain ⟨k, hk, rfl⟩ := List.mem_iff_getElem.mp hq
    have := hmax k (by simpa using hk)
    simpa [listMean] using this

/-! ## `score_estimator` and `BaseGridder.score` as regenerated from the source (Gen/ModelSel.lean) -/

/-- What `check_fit_input(…, unpack=False)` hands on as weights: one entry per data component, `None` throughout when no weights were given. -/
def weightsTuple (rows : Rows) : List (Option (List Rat)) := (List.range rows.data.length).map fun i => rows.weights.bind (·[i]?)

theorem zipIdx_mapM_eq {β : Type} (l : List (List Rat)) (F : List Rat → Nat → Option β) :
    (l.zipIdx).mapM (fun (p : List Rat × Nat) => F p.1 p.2) = (List.range l.length).mapM fun i => F (l.getD i []) i := by
  have : l.zipIdx = (List.range l.length).map fun i => (l.getD i [], i) := by
    apply List.ext_getElem
    · simp
    · intro i h1 h2
      simp only [List.length_zipIdx] at h1
      simp [List.getElem_zipIdx, List.getD_eq_getElem?_getD, List.getElem?_eq_getElem h1]
  rw [this, List.mapM_map]
  rfl

theorem mapM_congr_opt {α β : Type} (l : List α) (f g : α → Option β) (h : ∀ x ∈ l, f x = g x) : l.mapM f = l.mapM g := by
  induction l with
  | nil => rfl
  | cons x xs ih =>
    simp only [List.mapM_cons]
    rw [h x (List.mem_cons_self), ih (fun y hy => h y (List.mem_cons_of_mem _ hy))]

/-- **Bridge.**  `score_estimator` as regenerated from the source — one score per predicted component, `scorer(DummyEstimator(pred), X, data[i],
    sample_weight=weights[i])`, which array is the prediction and which the truth read from the syntax tree, `np.mean` of the scores — is the
    model's `scoreEstimator` for every metric, whenever the estimator predicts as many components as there are data components. -/
theorem gen_score_estimator_eq_model (s : Scoring) (pred : List (List Rat)) (rows : Rows) (hlen : pred.length = rows.data.length) :
    Gen.scoreEstimator (fun p y w => metric s y p w) pred rows.data (weightsTuple rows) = scoreEstimator s pred rows := by
  unfold Gen.scoreEstimator scoreEstimator
  have h := zipIdx_mapM_eq pred (fun p i => metric s (rows.data.getD i []) p ((weightsTuple rows).getD i none))
  have h' : (pred.zipIdx.mapM fun (x : List Rat × Nat) => metric s (rows.data.getD x.2 []) x.1 ((weightsTuple rows).getD x.2 none))
      = (List.range rows.data.length).mapM fun i => metric s (rows.data.getD i []) (pred.getD i []) (rows.weights.bind (·[i]?)) := by
    rw [h, hlen]
    apply mapM_congr_opt
    intro i hi
    have : i < rows.data.length := List.mem_range.mp hi
    simp [weightsTuple, List.getD_eq_getElem?_getD, List.getElem?_map, List.getElem?_range this]
  simp only [bind, Option.bind] at h' ⊢
  rw [h']
  cases (List.range rows.data.length).mapM fun i => metric s (rows.data.getD i []) (pred.getD i []) (rows.weights.bind (·[i]?)) with
  | none => rfl
  | some per => simp [Gen.listMeanOpt, listSum]

/-- `BaseGridder.score` asks for R² (read from the source). -/
theorem gen_gridder_score_metric : Gen.gridderScoreMetric = Scoring.r2 := rfl

end Verde.C12
