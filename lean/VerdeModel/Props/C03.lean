/-
  C03 — Predictions evaluate the documented analytic models with the fitted parameters.
  Kernels are the SAME generic definitions the driver executes at `Float`, here at partial reals (`PReal`).
  Linear / Cubic ≡ SciPy's interpolators is a differential test only (external algorithm): no theorem.
-/
import VerdeModel.Gen.Loops
import VerdeModel.Gen.Predict
import VerdeModel.Lemmas.PReal
import VerdeModel.Gen.Kernels
import VerdeModel.Model.LinAlg
import VerdeModel.Gen.Trend
import VerdeModel.Lemmas.Sort
import Mathlib.Tactic.Linarith
import Mathlib.Tactic.Ring
namespace Verde.C03
open Verde PReal

/-! ### Bridge: the definitions regenerated from /repo's source text on every run ARE the model's definitions.
    (`Gen/Kernels.lean` is rewritten by harness/py2lean.py before each build; if the source changes, these are what breaks.) -/
theorem gen_greens_jit_eq_model {α : Type} [RealLike α] (e n m : α) : Gen.greensJit e n m = greens e n m := rfl
theorem gen_greens_numpy_eq_model {α : Type} [RealLike α] (e n m : α) : Gen.greensNumpy e n m = greens e n m := rfl
theorem gen_greens2d_eq_model {α : Type} [RealLike α] (e n m ν : α) : Gen.greens2d e n m ν = greens2d e n m ν := rfl
theorem gen_checker_eq_model {α : Type} [RealLike α] (A we wn e n : α) : Gen.checker A we wn e n = checker A we wn e n := rfl

/-- Documented biharmonic kernel: `g(r) = r²(ln r − 1)`, `g(0) = 0`. -/
noncomputable def gSpec (r : ℝ) : ℝ := if r = 0 then 0 else r ^ 2 * (Real.log r - 1)

/-- **Spline kernel.**  For every offset and every `mindist ≥ 0`, the code's piecewise formula evaluates — finitely, also at
    coincident points — to `g(√(e²+n²) + mindist)`; the branch threshold is irrelevant. -/
theorem greens_eq_spec (e n m : ℝ) (hm : 0 ≤ m) :
    greens (fin e) (fin n) (fin m) = fin (gSpec (Real.sqrt (e * e + n * n) + m)) := by
  have h0 : 0 ≤ e * e + n * n := add_nonneg (mul_self_nonneg _) (mul_self_nonneg _)
  set r := Real.sqrt (e * e + n * n) + m with hr
  have hr0 : 0 ≤ r := add_nonneg (Real.sqrt_nonneg _) hm
  simp only [greens, mul_fin, add_fin, sqrt_fin h0, ← hr, lit_eq, lt_fin, Nat.cast_one, gSpec]
  by_cases hz : r = 0
  · have : r < 1 := by rw [hz]; norm_num
    simp only [this, if_true, hz]
    rw [rpow_fin (Or.inr ⟨rfl, le_refl _⟩), log_fin (by norm_num)]
    simp
  · have hpos : 0 < r := lt_of_le_of_ne hr0 (Ne.symm hz)
    simp only [hz, if_false]
    split_ifs with h1
    · rw [rpow_fin (Or.inl hpos), log_fin (Real.rpow_pos_of_pos hpos r), Real.log_rpow hpos]
      simp only [sub_fin, mul_fin]; congr 1; ring
    · rw [log_fin hpos]; simp only [sub_fin, mul_fin]; congr 1; ring

/-- The Jacobian entry of coincident points is finite (value 0 without mindist). -/
theorem greens_coincident_finite : greens (fin 0) (fin 0) (fin 0) = fin 0 := by
  rw [greens_eq_spec 0 0 0 (le_refl _)]; simp [gSpec]

/-- A plausible "simplification" `r·log r` instead of `log(r^r)` is NOT finite at coincident points — this is what the
    `log(r**r)` trick is for (and what the partial-real semantics makes visible). -/
theorem naive_kernel_bad_at_zero : (fin 0 : PReal) * (RealLike.log (fin 0) - fin 0) = bad := by
  rw [log_nonpos_bad (le_refl _)]; simp

/-- **Elastic Green's functions** (Sandwell & Wessel 2016) for `r = √(e²+n²) + mindist > 0`. -/
theorem greens2d_eq_spec (e n m ν : ℝ) (hr : 0 < Real.sqrt (e * e + n * n) + m) :
    greens2d (fin e) (fin n) (fin m) (fin ν) =
      (fin ((3 - ν) * Real.log (Real.sqrt (e * e + n * n) + m) +
            (1 + ν) / ((Real.sqrt (e * e + n * n) + m) * (Real.sqrt (e * e + n * n) + m)) * (n * n)),
       fin ((3 - ν) * Real.log (Real.sqrt (e * e + n * n) + m) +
            (1 + ν) / ((Real.sqrt (e * e + n * n) + m) * (Real.sqrt (e * e + n * n) + m)) * (e * e)),
       fin (-((1 + ν) / ((Real.sqrt (e * e + n * n) + m) * (Real.sqrt (e * e + n * n) + m)) * e * n))) := by
  have h0 : 0 ≤ e * e + n * n := add_nonneg (mul_self_nonneg _) (mul_self_nonneg _)
  set r := Real.sqrt (e * e + n * n) + m with hrdef
  have hrr : r * r ≠ 0 := ne_of_gt (mul_pos hr hr)
  simp only [greens2d, mul_fin, add_fin, sqrt_fin h0, ← hrdef, lit_eq, sub_fin, log_fin hr, div_fin hrr, neg_fin]
  norm_num

/-- With a positive `mindist` all three Green's functions are finite for every offset, coincident points included. -/
theorem greens2d_finite (e n m ν : ℝ) (hm : 0 < m) :
    ∃ a b c : ℝ, greens2d (fin e) (fin n) (fin m) (fin ν) = (fin a, fin b, fin c) := by
  have hr : 0 < Real.sqrt (e * e + n * n) + m := add_pos_of_nonneg_of_pos (Real.sqrt_nonneg _) hm
  exact ⟨_, _, _, greens2d_eq_spec e n m ν hr⟩

/-- Without `mindist` the kernel is undefined at coincident points (why the guard exists). -/
theorem greens2d_undefined_at_zero (ν : ℝ) : (greens2d (fin 0) (fin 0) (fin 0) (fin ν)).1 = bad := by
  simp only [greens2d, mul_fin, add_fin, mul_zero, add_zero, sqrt_fin (le_refl (0 : ℝ)), Real.sqrt_zero,
    log_nonpos_bad (le_refl (0 : ℝ))]
  simp

/-- **CheckerBoard** formula and default wavelengths (half the region). -/
theorem checker_eq_spec (A we wn e n : ℝ) (hwe : we ≠ 0) (hwn : wn ≠ 0) :
    checker (fin A) (fin we) (fin wn) (fin e) (fin n) =
      fin (A * Real.sin (2 * Real.pi / we * e) * Real.cos (2 * Real.pi / wn * n)) := by
  simp only [checker, lit_eq, pi_eq, mul_fin, div_fin hwe, div_fin hwn, sin_fin, cos_fin]
  norm_num

/-- Jacobian layout of the vector spline: `2·nobs` rows, east rows first; row `i` is `[G_ee(i,·) | G_ne(i,·)]`,
    row `nobs + i` is `[G_ne(i,·) | G_nn(i,·)]` (east columns first). -/
theorem vectorJac_layout {α : Type} [RealLike α] (obs force : List (α × α)) (md ν : α) (i : Nat) (hi : i < obs.length) :
    (vectorJac obs force md ν).length = 2 * obs.length ∧
    (vectorJac obs force md ν)[i]? = some
      ((force.map fun f => (greens2d (obs[i].1 - f.1) (obs[i].2 - f.2) md ν).1) ++
       (force.map fun f => (greens2d (obs[i].1 - f.1) (obs[i].2 - f.2) md ν).2.2)) ∧
    (vectorJac obs force md ν)[obs.length + i]? = some
      ((force.map fun f => (greens2d (obs[i].1 - f.1) (obs[i].2 - f.2) md ν).2.2) ++
       (force.map fun f => (greens2d (obs[i].1 - f.1) (obs[i].2 - f.2) md ν).2.1)) := by
  refine ⟨by simp [vectorJac]; omega, ?_, ?_⟩
  · unfold vectorJac
    rw [List.getElem?_append_left (by simpa using hi)]
    simp [List.getElem?_map, List.getElem?_eq_getElem hi]
  · unfold vectorJac
    rw [List.getElem?_append_right (by simp)]
    simp [List.getElem?_map, List.getElem?_eq_getElem hi]

/-- The spline Jacobian holds exactly the kernel of each (observation, force) pair … -/
theorem splineJac_entry {α : Type} [RealLike α] (obs force : List (α × α)) (md : α) (i j : Nat)
    (hi : i < obs.length) (hj : j < force.length) :
    ((splineJac obs force md)[i]?.bind (·[j]?)) =
      some (greens (obs[i].1 - force[j].1) (obs[i].2 - force[j].2) md) := by
  simp [splineJac, List.getElem?_map, List.getElem?_eq_getElem hi, List.getElem?_eq_getElem hj]

/-- … and depends only on coordinate differences: a common translation of data and forces leaves it unchanged. -/
theorem splineJac_translation_invariant (obs force : List (ℝ × ℝ)) (md : PReal) (te tn : ℝ) :
    splineJac (obs.map fun p => (fin (p.1 + te), fin (p.2 + tn))) (force.map fun p => (fin (p.1 + te), fin (p.2 + tn))) md
      = splineJac (obs.map fun p => (fin p.1, fin p.2)) (force.map fun p => (fin p.1, fin p.2)) md := by
  simp only [splineJac, List.map_map]
  apply List.map_congr_left
  intro p _
  apply List.map_congr_left
  intro f _
  simp only [Function.comp, sub_fin]
  congr 2 <;> ring

/-- Sum of a list of partial reals (right fold from `fin 0`). -/
noncomputable def psum (l : List PReal) : PReal := l.foldr (fun x s => x + s) (fin 0)

theorem add_zero_fin (a : PReal) : a + fin 0 = a := by cases a <;> simp

theorem foldl_add_eq (l : List PReal) (a : PReal) : l.foldl (fun acc x => acc + x) a = a + psum l := by
  induction l generalizing a with
  | nil => simp [psum, add_zero_fin]
  | cons x xs ih =>
    simp only [List.foldl_cons, psum, List.foldr_cons]
    rw [ih, add_assoc']
    rfl

/-- **`predict` = Jacobian × forces.**  The accumulation loop of `predict_numpy` equals, for every observation, the product of
    its Jacobian row with the force vector — prediction and Jacobian share the same kernel. -/
theorem spline_predict_eq_jac_mul (obs force : List (PReal × PReal)) (md : PReal) (forces : List PReal) :
    splinePredict obs force md forces =
      (splineJac obs force md).map fun row => psum (List.zipWith (· * ·) row forces) := by
  simp only [splinePredict, splineJac, List.map_map]
  apply List.map_congr_left
  intro p _
  simp only [Function.comp]
  have h1 : ∀ (l : List ((PReal × PReal) × PReal)) (a : PReal),
      l.foldl (fun acc fq => acc + greens (p.1 - fq.1.1) (p.2 - fq.1.2) md * fq.2) a =
        (l.map fun fq => greens (p.1 - fq.1.1) (p.2 - fq.1.2) md * fq.2).foldl (fun acc x => acc + x) a := by
    intro l; induction l with
    | nil => intro a; rfl
    | cons x xs ih => intro a; simp only [List.foldl_cons, List.map_cons]; exact ih _
  rw [h1, foldl_add_eq, lit_eq, Nat.cast_zero, zero_add']
  congr 1
  rw [List.zipWith_map_left]
  simp [List.zip, List.map_zipWith]

/-! Helper lemmas: sums of defined values stay defined -/
open Finset in
theorem psum_map_fin (l : List ℝ) : psum (l.map fin) = fin l.sum := by
  induction l with
  | nil => rfl
  | cons x xs ih => simp only [List.map_cons, psum, List.foldr_cons, List.sum_cons] at ih ⊢; rw [ih]; rfl

theorem zipWith_mul_fin (a b : List ℝ) : List.zipWith (· * ·) (a.map fin) (b.map fin) = (List.zipWith (· * ·) a b).map fin := by
  induction a generalizing b with
  | nil => rfl
  | cons x xs ih => cases b with
    | nil => rfl
    | cons y ys => simp only [List.map_cons, List.zipWith_cons_cons, ih]; rfl

open Finset in
theorem sum_zipWith_eq_finsum (row v : List ℝ) (n : Nat) (hr : row.length = n) (hv : v.length = n) :
    (List.zipWith (· * ·) row v).sum = ∑ k : Fin n, row.getD k 0 * v.getD k 0 := by
  subst hr
  induction row generalizing v with
  | nil => simp
  | cons x xs ih =>
    cases v with
    | nil => simp at hv
    | cons y ys =>
      simp only [List.length_cons, Nat.add_right_cancel_iff] at hv
      simp only [List.zipWith_cons_cons, List.sum_cons, List.length_cons, Fin.sum_univ_succ, Fin.val_zero, List.getD_cons_zero, Fin.val_succ,
        List.getD_cons_succ, ih ys hv]


/-- Trend: `predict` is the documented polynomial = Jacobian row · coefficients. -/
theorem trend_predict_eq_jac_mul (coef : List Rat) (deg : Nat) (e n : Rat) :
    trendPredict coef deg e n =
      dot ((powerCombinations deg).map fun ij => e ^ ij.1 * n ^ ij.2) coef := by
  unfold trendPredict dot
  congr 1
  rw [List.zipWith_map_left]
  rw [List.zipWith_comm]

/-- **Bridge (all degrees).**  `polynomial_power_combinations` as regenerated from /repo's source text —
    `sorted(((i, j) for j in range(degree + 1) for i in range(degree + 1 - j)), key=sum)`, a STABLE sort — equals the model's
    explicit monomial order for every degree `N` (bucket form of a stable sort, Lemmas/Sort.lean); a negative degree is rejected. -/
theorem gen_power_combinations_eq_model (N : Nat) : Gen.powerCombinations (N : Int) = .ok (powerCombinations N) := by
  unfold Gen.powerCombinations
  have h0 : ¬ ((N : Int) < 0) := by omega
  have h1 : ((N : Int) + 1).toNat = N + 1 := by omega
  have h2 : ∀ j : Nat, (((N : Int) + 1) - (j : Int)).toNat = N + 1 - j := by intro j; omega
  simp only [h0, if_false, h1, h2]
  exact congrArg Except.ok (sorted_enumeration_eq_powerCombinations N)

theorem gen_power_combinations_negative_rejected (d : Int) (h : d < 0) : Gen.powerCombinations d = .error .valueError := by
  unfold Gen.powerCombinations; simp [h]

/-- Monomial table: `(i, j)` occurs iff `i + j ≤ N` … -/
theorem power_combinations_mem (N i j : Nat) : (i, j) ∈ powerCombinations N ↔ i + j ≤ N := by
  simp only [powerCombinations, List.mem_flatMap, List.mem_map, List.mem_range, Prod.mk.injEq]
  constructor
  · rintro ⟨t, ht, j', hj', h1, h2⟩; omega
  · intro h; exact ⟨i + j, by omega, j, by omega, by omega, rfl⟩

/-- … the table for degree `N + 1` is the table for `N` followed by the degree-`N+1` monomials in the order
    `(N+1, 0), (N, 1), …, (0, N+1)` — for every `N` (sorted by total degree; the suite pins only small degrees). -/
theorem power_combinations_succ (N : Nat) :
    powerCombinations (N + 1) = powerCombinations N ++ (List.range (N + 2)).map fun j => (N + 1 - j, j) := by
  unfold powerCombinations
  rw [List.range_succ (n := N + 1), List.flatMap_append]
  simp only [List.flatMap_cons, List.flatMap_nil, List.append_nil]
  rw [← List.range_succ]

/-- … and it has `(N+1)(N+2)/2` entries. -/
theorem power_combinations_count (N : Nat) : (powerCombinations N).length * 2 = (N + 1) * (N + 2) := by
  induction N with
  | zero => decide
  | succ N ih => rw [power_combinations_succ, List.length_append]; simp; nlinarith

/-! Non-vacuity -/
example : powerCombinations 2 = [(0, 0), (1, 0), (0, 1), (2, 0), (1, 1), (0, 2)] := by decide
example : gSpec 1 = -1 := by simp [gSpec]
example : ∃ v, greens (fin 3) (fin 4) (fin 0) = fin v := ⟨_, greens_eq_spec 3 4 0 (le_refl _)⟩

/-! ### Bridges: `Trend.jacobian` and `Trend.predict` regenerated from source -/

/-- **Bridge.**  `Trend.jacobian` as regenerated from /repo's source text on every run (the loop `for col, (i, j) in enumerate(combinations):
    out[:, col] = easting**i * northing**j`, the expression translated operand by operand) is the model's design matrix. -/
theorem gen_trend_jacobian_eq_model (es ns : List Rat) (degree : Nat) :
    Gen.trendJacobian es ns (powerCombinations degree) = trendJac es ns degree := rfl

/-- The body of the accumulation loop of `Trend.predict` at one query point, as generated. -/
def predStep (e n : Rat) (data : List Rat) (cij : Rat × Nat × Nat) : List Rat :=
  List.zipWith (· + ·) data (List.zipWith (fun e n => (((e ^ cij.2.1) * (n ^ cij.2.2)) * cij.1)) [e] [n])

theorem fold_point (e n : Rat) (l : List (Rat × Nat × Nat)) (acc : Rat) :
    l.foldl (predStep e n) [acc] = [acc + (l.map fun cij => e ^ cij.2.1 * n ^ cij.2.2 * cij.1).sum] := by
  induction l generalizing acc with
  | nil => simp
  | cons c rest ih =>
    rw [List.foldl_cons]
    have : predStep e n [acc] c = [acc + e ^ c.2.1 * n ^ c.2.2 * c.1] := by simp [predStep]
    rw [this, ih]
    simp only [List.map_cons, List.sum_cons]
    congr 1
    ring

theorem sum_zip_eq (e n : Rat) (coef : List Rat) (combos : List (Nat × Nat)) :
    ((coef.zip combos).map fun cij => e ^ cij.2.1 * n ^ cij.2.2 * cij.1).sum
      = (List.zipWith (fun c (ij : Nat × Nat) => e ^ ij.1 * n ^ ij.2 * c) coef combos).sum := by
  induction coef generalizing combos with
  | nil => simp
  | cons c rest ih =>
    cases combos with
    | nil => simp
    | cons ij more => simp [ih]

/-- **Bridge.**  `Trend.predict` as regenerated from /repo's source text on every run (`data = zeros`, the loop
    `for coef, (i, j) in zip(self.coef_, combinations): data += easting**i * northing**j * coef`) is, at every point, the polynomial with
    `coef_` over the documented monomial order. -/
theorem gen_trend_predict_eq_model (coef : List Rat) (degree : Nat) (e n : Rat) :
    Gen.trendPredict coef (powerCombinations degree) [e] [n] = [trendPredict coef degree e n] := by
  have h : Gen.trendPredict coef (powerCombinations degree) [e] [n] = (coef.zip (powerCombinations degree)).foldl (predStep e n) [0] := rfl
  rw [h, fold_point, zero_add, sum_zip_eq]
  rfl

/-! ## The array code around the kernels as regenerated from the source (Gen/Loops.lean) -/
section Loops
open RealLike
variable {α : Type} [RealLike α]

theorem foldl_range_getD3 {β γ : Type} (F : β → γ → γ → γ → β) (d : γ) :
    ∀ (c a b : List γ) (init : β), a.length = c.length → b.length = c.length →
      (List.range c.length).foldl (fun acc j => F acc (a.getD j d) (b.getD j d) (c.getD j d)) init
        = ((a.zip b).zip c).foldl (fun acc x => F acc x.1.1 x.1.2 x.2) init := by
  intro c
  induction c with
  | nil => intro a b init _ _; simp
  | cons c0 cs ih =>
    intro a b init ha hb
    match a, b, ha, hb with
    | a0 :: as, b0 :: bs, ha, hb =>
      simp only [List.length_cons, List.range_succ_eq_map, List.foldl_cons, List.foldl_map, List.getD_cons_zero, List.getD_cons_succ,
        List.zip_cons_cons]
      exact ih as bs _ (by simpa using ha) (by simpa using hb)

theorem foldl_singleton {γ : Type} (g : γ → α) (l : List γ) (r0 : α) :
    l.foldl (fun (acc : List α) x => List.zipWith (· + ·) acc [g x]) [r0] = [l.foldl (fun acc x => acc + g x) r0] := by
  induction l generalizing r0 with
  | nil => rfl
  | cons x xs ih => simp only [List.foldl_cons, List.zipWith_cons_cons, List.zipWith_nil_right]; exact ih _

/-- **Bridge.**  `jacobian_numpy` as regenerated from the source: row `i`, column `j` holds the kernel between observation `i` and force `j`. -/
theorem gen_jacobian_numpy_eq_model (east north fe fn : List α) (mindist : α) :
    Gen.jacobianNumpy east north fe fn mindist = splineJac (east.zip north) (fe.zip fn) mindist := rfl

/-- **Bridge.**  `jacobian_2d_numpy` as regenerated from the source: the four block assignments give `[[G_ee, G_ne], [G_ne, G_nn]]`. -/
theorem gen_jacobian_2d_numpy_eq_model (east north fe fn : List α) (mindist poisson : α) :
    Gen.jacobian2dNumpy east north fe fn mindist poisson = vectorJac (east.zip north) (fe.zip fn) mindist poisson := rfl

/-- **Bridge.**  `predict_numpy` as regenerated from the source (`result[:] = 0`, `for j in range(forces.size): result += green * forces[j]`)
    is, at every observation point, the model's sum over the forces. -/
theorem gen_predict_numpy_eq_model (e n : α) (fe fn forces : List α) (mindist : α)
    (h1 : fe.length = forces.length) (h2 : fn.length = forces.length) :
    Gen.predictNumpy [e] [n] fe fn mindist forces = splinePredict [(e, n)] (fe.zip fn) mindist forces := by
  unfold Gen.predictNumpy splinePredict
  simp only [List.map_cons, List.map_nil, List.zipWith_cons_cons, List.zipWith_nil_right]
  rw [foldl_range_getD3 (fun (acc : List α) a b c => List.zipWith (· + ·) acc [Gen.greensNumpy (e - a) (n - b) mindist * c]) (lit 0)
    forces fe fn [lit 0] h1 h2]
  exact foldl_singleton (fun x : (α × α) × α => Gen.greensNumpy (e - x.1.1) (n - x.1.2) mindist * x.2) _ _

theorem foldl_pair_singleton {γ : Type} (g1 g2 : γ → α) (l : List γ) (r1 r2 : α) :
    l.foldl (fun (acc : List α × List α) x => (List.zipWith (· + ·) acc.1 [g1 x], List.zipWith (· + ·) acc.2 [g2 x])) ([r1], [r2])
      = ([(l.foldl (fun (acc : α × α) x => (acc.1 + g1 x, acc.2 + g2 x)) (r1, r2)).1],
         [(l.foldl (fun (acc : α × α) x => (acc.1 + g1 x, acc.2 + g2 x)) (r1, r2)).2]) := by
  induction l generalizing r1 r2 with
  | nil => rfl
  | cons x xs ih => simp only [List.foldl_cons, List.zipWith_cons_cons, List.zipWith_nil_right]; exact ih _ _

/-- **Bridge.**  `predict_2d_numpy` as regenerated from the source: the east forces are `forces[j]`, the north forces `forces[j + nforces]`,
    `vec_east += green_ee * f_e + green_ne * f_n`, `vec_north += green_ne * f_e + green_nn * f_n`. -/
theorem gen_predict_2d_numpy_eq_model (e n : α) (fe fn f1 f2 : List α) (mindist poisson : α)
    (h1 : fe.length = f1.length) (h2 : fn.length = f1.length) (h3 : f2.length = f1.length) :
    Gen.predict2dNumpy [e] [n] fe fn mindist poisson (f1 ++ f2)
      = ((vectorPredict [(e, n)] (fe.zip fn) mindist poisson f1 f2).map (·.1), (vectorPredict [(e, n)] (fe.zip fn) mindist poisson f1 f2).map (·.2)) := by
  unfold Gen.predict2dNumpy vectorPredict
  have hk : (f1 ++ f2).length / 2 = f1.length := by simp [List.length_append, h3]; omega
  simp only [hk, List.map_cons, List.map_nil, List.zipWith_cons_cons, List.zipWith_nil_right]
  have hX : (List.range f1.length).map (fun j => ((fe.getD j (lit 0), fn.getD j (lit 0)), ((f1 ++ f2).getD j (lit 0), (f1 ++ f2).getD (j + f1.length) (lit 0))))
      = (fe.zip fn).zip (f1.zip f2) := by
    apply List.ext_getElem
    · simp [h1, h2, h3]
    · intro i hi1 hi2
      have hi : i < f1.length := by simpa using hi1
      have g : ∀ (l : List α) (k : Nat) (hk : k < l.length), l.getD k (lit 0) = l[k] := by
        intro l k hk
        rw [List.getD_eq_getElem?_getD, List.getElem?_eq_getElem hk]; rfl
      simp only [List.getElem_map, List.getElem_range, List.getElem_zip]
      rw [g fe i (by omega), g fn i (by omega), g (f1 ++ f2) i (by simp; omega), g (f1 ++ f2) (i + f1.length) (by simp; omega)]
      rw [List.getElem_append_left hi, List.getElem_append_right (by omega)]
      simp
  let G : List α × List α → (α × α) × (α × α) → List α × List α := fun acc x =>
      (List.zipWith (· + ·) acc.1 [((Gen.greens2d (e - x.1.1) (n - x.1.2) mindist poisson).1 * x.2.1) + ((Gen.greens2d (e - x.1.1) (n - x.1.2) mindist poisson).2.2 * x.2.2)],
       List.zipWith (· + ·) acc.2 [((Gen.greens2d (e - x.1.1) (n - x.1.2) mindist poisson).2.2 * x.2.1) + ((Gen.greens2d (e - x.1.1) (n - x.1.2) mindist poisson).2.1 * x.2.2)])
  calc _ = List.foldl G ([lit 0], [lit 0]) ((List.range f1.length).map (fun j => ((fe.getD j (lit 0), fn.getD j (lit 0)), ((f1 ++ f2).getD j (lit 0), (f1 ++ f2).getD (j + f1.length) (lit 0))))) :=
        List.foldl_map.symm
    _ = _ := by rw [hX]; exact foldl_pair_singleton _ _ _ _ _
/-- **Bridge.**  `Spline.jacobian` as regenerated from the source (how coordinates and force positions are unpacked, every positional argument of
    `jacobian_numpy`): rows = observation points, columns = forces, entry = the kernel between them with `self.mindist`. -/
theorem gen_spline_jacobian_eq_model (e n fe fn : List α) (crest frest : List (List α)) (mindist : α) :
    Gen.splineJacobian mindist (e :: n :: crest) (fe :: fn :: frest) = splineJac (e.zip n) (fe.zip fn) mindist := rfl

/-- **Bridge.**  `VectorSpline2D.jacobian` as regenerated from the source is the model's block Jacobian with `self.mindist` and `self.poisson`. -/
theorem gen_vector_spline_jacobian_eq_model (e n fe fn : List α) (crest frest : List (List α)) (mindist poisson : α) :
    Gen.vectorSplineJacobian mindist poisson (e :: n :: crest) (fe :: fn :: frest) = vectorJac (e.zip n) (fe.zip fn) mindist poisson := rfl

/-- **Bridge.**  `Spline.predict` as regenerated from the source: the fitted force positions are unpacked as (east, north), only the first two query
    arrays are used, and the value at a point is the model's sum over the forces with `self.mindist` and `self.force_`. -/
theorem gen_spline_predict_eq_model (e n : α) (fe fn forces : List α) (frest crest : List (List α)) (mindist : α)
    (h1 : fe.length = forces.length) (h2 : fn.length = forces.length) :
    Gen.splinePredict (fe :: fn :: frest) mindist forces ([e] :: [n] :: crest) = splinePredict [(e, n)] (fe.zip fn) mindist forces := by
  unfold Gen.splinePredict
  simp only [List.getD_cons_zero, List.getD_cons_succ]
  exact gen_predict_numpy_eq_model e n fe fn forces mindist h1 h2

/-- **Bridge.**  `VectorSpline2D.predict` as regenerated from the source equals the model: east component first, coupled through `self.poisson`. -/
theorem gen_vector_spline_predict_eq_model (e n : α) (fe fn f1 f2 : List α) (frest crest : List (List α)) (mindist poisson : α)
    (h1 : fe.length = f1.length) (h2 : fn.length = f1.length) (h3 : f2.length = f1.length) :
    Gen.vectorSplinePredict (fe :: fn :: frest) mindist poisson (f1 ++ f2) ([e] :: [n] :: crest)
      = ((vectorPredict [(e, n)] (fe.zip fn) mindist poisson f1 f2).map (·.1), (vectorPredict [(e, n)] (fe.zip fn) mindist poisson f1 f2).map (·.2)) := by
  unfold Gen.vectorSplinePredict
  simp only [List.getD_cons_zero, List.getD_cons_succ]
  exact gen_predict_2d_numpy_eq_model e n fe fn f1 f2 mindist poisson h1 h2 h3

/-! ### Size independence of the array code

The bridges above are stated at one observation point.  The theorems below lift them to query arrays of ANY length: the regenerated
`predict_numpy` / `jacobian_numpy` of a concatenation is the concatenation of their values on the parts, so a query array is handled point by
point, whatever its size — no block of points is skipped, shifted or overwritten (the relational checks of `harness/props/large.py` test this same
law on the implementation at 2^16 .. 2^17 points). -/

theorem predict_step_append (g : α → α → α) (r₁ r₂ e₁ e₂ n₁ n₂ : List α)
    (hr : r₁.length = e₁.length) (hn : n₁.length = e₁.length) :
    List.zipWith (· + ·) (r₁ ++ r₂) (List.zipWith g (e₁ ++ e₂) (n₁ ++ n₂))
      = List.zipWith (· + ·) r₁ (List.zipWith g e₁ n₁) ++ List.zipWith (· + ·) r₂ (List.zipWith g e₂ n₂) := by
  rw [List.zipWith_append (by omega : e₁.length = n₁.length)]
  rw [List.zipWith_append (by simp [List.length_zipWith, hr, hn])]

theorem predict_fold_append (g : Nat → α → α → α) (e₁ e₂ n₁ n₂ : List α) (hn : n₁.length = e₁.length) :
    ∀ (js : List Nat) (r₁ r₂ : List α), r₁.length = e₁.length →
      js.foldl (fun (result : List α) j => List.zipWith (· + ·) result (List.zipWith (g j) (e₁ ++ e₂) (n₁ ++ n₂))) (r₁ ++ r₂)
        = js.foldl (fun (result : List α) j => List.zipWith (· + ·) result (List.zipWith (g j) e₁ n₁)) r₁
          ++ js.foldl (fun (result : List α) j => List.zipWith (· + ·) result (List.zipWith (g j) e₂ n₂)) r₂ := by
  intro js
  induction js with
  | nil => intro r₁ r₂ _; rfl
  | cons j js ih =>
    intro r₁ r₂ hr
    simp only [List.foldl_cons]
    rw [predict_step_append (g j) r₁ r₂ e₁ e₂ n₁ n₂ hr hn]
    exact ih _ _ (by simp [List.length_zipWith, hr, hn])

/-- **Size independence (about the regenerated source).**  `predict_numpy` on a concatenated query is the concatenation of `predict_numpy` on
    the parts, for parts of every length. -/
theorem src_predict_numpy_append (e₁ e₂ n₁ n₂ fe fn : List α) (mindist : α) (forces : List α) (hn : n₁.length = e₁.length) :
    Gen.predictNumpy (e₁ ++ e₂) (n₁ ++ n₂) fe fn mindist forces
      = Gen.predictNumpy e₁ n₁ fe fn mindist forces ++ Gen.predictNumpy e₂ n₂ fe fn mindist forces := by
  unfold Gen.predictNumpy
  simp only [List.map_append]
  exact predict_fold_append (fun j e n => Gen.greensNumpy (e - fe.getD j (lit 0)) (n - fn.getD j (lit 0)) mindist * forces.getD j (lit 0))
    e₁ e₂ n₁ n₂ hn _ _ _ (by simp)

theorem predict_numpy_nil (fe fn : List α) (mindist : α) (forces : List α) :
    Gen.predictNumpy ([] : List α) [] fe fn mindist forces = [] := by
  unfold Gen.predictNumpy
  generalize List.range forces.length = js
  simp only [List.map_nil]
  induction js with
  | nil => rfl
  | cons j js ih => simpa [List.foldl_cons] using ih

/-- **Bridge for query arrays of every length.**  `predict_numpy` as regenerated from the source equals the model's prediction at the whole
    list of observation points — the single-point bridge lifted by the append law. -/
theorem gen_predict_numpy_all_eq_model (pts : List (α × α)) (fe fn forces : List α) (mindist : α)
    (h1 : fe.length = forces.length) (h2 : fn.length = forces.length) :
    Gen.predictNumpy (pts.map (·.1)) (pts.map (·.2)) fe fn mindist forces = splinePredict pts (fe.zip fn) mindist forces := by
  induction pts with
  | nil => simpa [splinePredict] using predict_numpy_nil fe fn mindist forces
  | cons p ps ih =>
    have h := src_predict_numpy_append [p.1] (ps.map (·.1)) [p.2] (ps.map (·.2)) fe fn mindist forces rfl
    simp only [List.map_cons, List.singleton_append] at h ⊢
    rw [h, ih, gen_predict_numpy_eq_model p.1 p.2 fe fn forces mindist h1 h2]
    simp [splinePredict]

/-- **Size independence of the Jacobian (about the regenerated source).**  The rows of `jacobian_numpy` for a concatenated list of observation
    points are the rows for the first part followed by the rows for the second. -/
theorem src_jacobian_numpy_append (e₁ e₂ n₁ n₂ fe fn : List α) (mindist : α) (hn : n₁.length = e₁.length) :
    Gen.jacobianNumpy (e₁ ++ e₂) (n₁ ++ n₂) fe fn mindist
      = Gen.jacobianNumpy e₁ n₁ fe fn mindist ++ Gen.jacobianNumpy e₂ n₂ fe fn mindist := by
  unfold Gen.jacobianNumpy
  rw [List.zip_append (by omega : e₁.length = n₁.length), List.map_append]

theorem predict2d_fold_append (g h : Nat → α → α → α) (e₁ e₂ n₁ n₂ : List α) (hn : n₁.length = e₁.length) :
    ∀ (js : List Nat) (r₁ r₂ s₁ s₂ : List α), r₁.length = e₁.length → s₁.length = e₁.length →
      js.foldl (fun (acc : List α × List α) j =>
          (List.zipWith (· + ·) acc.1 (List.zipWith (g j) (e₁ ++ e₂) (n₁ ++ n₂)), List.zipWith (· + ·) acc.2 (List.zipWith (h j) (e₁ ++ e₂) (n₁ ++ n₂))))
          (r₁ ++ r₂, s₁ ++ s₂)
        = ((js.foldl (fun (acc : List α × List α) j =>
              (List.zipWith (· + ·) acc.1 (List.zipWith (g j) e₁ n₁), List.zipWith (· + ·) acc.2 (List.zipWith (h j) e₁ n₁))) (r₁, s₁)).1
            ++ (js.foldl (fun (acc : List α × List α) j =>
              (List.zipWith (· + ·) acc.1 (List.zipWith (g j) e₂ n₂), List.zipWith (· + ·) acc.2 (List.zipWith (h j) e₂ n₂))) (r₂, s₂)).1,
           (js.foldl (fun (acc : List α × List α) j =>
              (List.zipWith (· + ·) acc.1 (List.zipWith (g j) e₁ n₁), List.zipWith (· + ·) acc.2 (List.zipWith (h j) e₁ n₁))) (r₁, s₁)).2
            ++ (js.foldl (fun (acc : List α × List α) j =>
              (List.zipWith (· + ·) acc.1 (List.zipWith (g j) e₂ n₂), List.zipWith (· + ·) acc.2 (List.zipWith (h j) e₂ n₂))) (r₂, s₂)).2) := by
  intro js
  induction js with
  | nil => intro r₁ r₂ s₁ s₂ _ _; rfl
  | cons j js ih =>
    intro r₁ r₂ s₁ s₂ hr hs
    simp only [List.foldl_cons]
    rw [predict_step_append (g j) r₁ r₂ e₁ e₂ n₁ n₂ hr hn, predict_step_append (h j) s₁ s₂ e₁ e₂ n₁ n₂ hs hn]
    exact ih _ _ _ _ (by simp [List.length_zipWith, hr, hn]) (by simp [List.length_zipWith, hs, hn])

/-- **Size independence (about the regenerated source).**  `predict_2d_numpy` on a concatenated query is, component by component, the
    concatenation of its values on the parts. -/
theorem src_predict_2d_numpy_append (e₁ e₂ n₁ n₂ fe fn : List α) (mindist poisson : α) (forces : List α) (hn : n₁.length = e₁.length) :
    Gen.predict2dNumpy (e₁ ++ e₂) (n₁ ++ n₂) fe fn mindist poisson forces
      = ((Gen.predict2dNumpy e₁ n₁ fe fn mindist poisson forces).1 ++ (Gen.predict2dNumpy e₂ n₂ fe fn mindist poisson forces).1,
         (Gen.predict2dNumpy e₁ n₁ fe fn mindist poisson forces).2 ++ (Gen.predict2dNumpy e₂ n₂ fe fn mindist poisson forces).2) := by
  unfold Gen.predict2dNumpy
  simp only [List.map_append]
  exact predict2d_fold_append
    (fun j e n => (Gen.greens2d (e - fe.getD j (lit 0)) (n - fn.getD j (lit 0)) mindist poisson).1 * forces.getD j (lit 0)
        + (Gen.greens2d (e - fe.getD j (lit 0)) (n - fn.getD j (lit 0)) mindist poisson).2.2 * forces.getD (j + forces.length / 2) (lit 0))
    (fun j e n => (Gen.greens2d (e - fe.getD j (lit 0)) (n - fn.getD j (lit 0)) mindist poisson).2.2 * forces.getD j (lit 0)
        + (Gen.greens2d (e - fe.getD j (lit 0)) (n - fn.getD j (lit 0)) mindist poisson).2.1 * forces.getD (j + forces.length / 2) (lit 0))
    e₁ e₂ n₁ n₂ hn _ _ _ _ _ (by simp) (by simp)

theorem fold2_nil (g h : Nat → List α) : ∀ js : List Nat,
    js.foldl (fun (acc : List α × List α) j => (List.zipWith (· + ·) acc.1 (g j), List.zipWith (· + ·) acc.2 (h j))) (([] : List α), ([] : List α))
      = ([], []) := by
  intro js
  induction js with
  | nil => rfl
  | cons j js ih => simpa [List.foldl_cons] using ih

theorem predict_2d_numpy_nil (fe fn : List α) (mindist poisson : α) (forces : List α) :
    Gen.predict2dNumpy ([] : List α) [] fe fn mindist poisson forces = ([], []) := by
  unfold Gen.predict2dNumpy
  simp only [List.map_nil]
  exact fold2_nil _ _ _

/-- **Bridge for query arrays of every length.**  `predict_2d_numpy` as regenerated from the source equals the model's vector prediction at the
    whole list of observation points. -/
theorem gen_predict_2d_numpy_all_eq_model (pts : List (α × α)) (fe fn f1 f2 : List α) (mindist poisson : α)
    (h1 : fe.length = f1.length) (h2 : fn.length = f1.length) (h3 : f2.length = f1.length) :
    Gen.predict2dNumpy (pts.map (·.1)) (pts.map (·.2)) fe fn mindist poisson (f1 ++ f2)
      = ((vectorPredict pts (fe.zip fn) mindist poisson f1 f2).map (·.1), (vectorPredict pts (fe.zip fn) mindist poisson f1 f2).map (·.2)) := by
  induction pts with
  | nil => simpa [vectorPredict] using predict_2d_numpy_nil fe fn mindist poisson (f1 ++ f2)
  | cons p ps ih =>
    have h := src_predict_2d_numpy_append [p.1] (ps.map (·.1)) [p.2] (ps.map (·.2)) fe fn mindist poisson (f1 ++ f2) rfl
    simp only [List.map_cons, List.singleton_append] at h ⊢
    rw [h, ih, gen_predict_2d_numpy_eq_model p.1 p.2 fe fn f1 f2 mindist poisson h1 h2 h3]
    simp [vectorPredict]

/-- **`Spline.predict` at query arrays of every length** (about the regenerated source): the model's prediction at the whole list of points. -/
theorem gen_spline_predict_all_eq_model (pts : List (α × α)) (fe fn forces : List α) (frest crest : List (List α)) (mindist : α)
    (h1 : fe.length = forces.length) (h2 : fn.length = forces.length) :
    Gen.splinePredict (fe :: fn :: frest) mindist forces (pts.map (·.1) :: pts.map (·.2) :: crest) = splinePredict pts (fe.zip fn) mindist forces := by
  unfold Gen.splinePredict
  simp only [List.getD_cons_zero, List.getD_cons_succ]
  exact gen_predict_numpy_all_eq_model pts fe fn forces mindist h1 h2

/-- **`VectorSpline2D.predict` at query arrays of every length** (about the regenerated source). -/
theorem gen_vector_spline_predict_all_eq_model (pts : List (α × α)) (fe fn f1 f2 : List α) (frest crest : List (List α)) (mindist poisson : α)
    (h1 : fe.length = f1.length) (h2 : fn.length = f1.length) (h3 : f2.length = f1.length) :
    Gen.vectorSplinePredict (fe :: fn :: frest) mindist poisson (f1 ++ f2) (pts.map (·.1) :: pts.map (·.2) :: crest)
      = ((vectorPredict pts (fe.zip fn) mindist poisson f1 f2).map (·.1), (vectorPredict pts (fe.zip fn) mindist poisson f1 f2).map (·.2)) := by
  unfold Gen.vectorSplinePredict
  simp only [List.getD_cons_zero, List.getD_cons_succ]
  exact gen_predict_2d_numpy_all_eq_model pts fe fn f1 f2 mindist poisson h1 h2 h3

/-- **Point by point (about the regenerated source, no hypotheses).**  `predict_numpy` at a list of query points is the list of its values at each
    point taken alone — whatever the forces, their number, or the length of the query.  Every statement proved at one location (linearity in the
    data, exactness at a datum) therefore holds at each entry of a query array of any size. -/
theorem src_predict_numpy_pointwise (pts : List (α × α)) (fe fn : List α) (mindist : α) (forces : List α) :
    Gen.predictNumpy (pts.map (·.1)) (pts.map (·.2)) fe fn mindist forces
      = pts.flatMap (fun p => Gen.predictNumpy [p.1] [p.2] fe fn mindist forces) := by
  induction pts with
  | nil => simpa using predict_numpy_nil fe fn mindist forces
  | cons p ps ih =>
    have h := src_predict_numpy_append [p.1] (ps.map (·.1)) [p.2] (ps.map (·.2)) fe fn mindist forces rfl
    simp only [List.map_cons, List.singleton_append, List.flatMap_cons] at h ⊢
    rw [h, ih]

/-- `Spline.predict` as regenerated from the source, point by point. -/
theorem src_spline_predict_pointwise (pts : List (α × α)) (fc : List (List α)) (mindist : α) (forces : List α) (crest : List (List α)) :
    Gen.splinePredict fc mindist forces (pts.map (·.1) :: pts.map (·.2) :: crest)
      = pts.flatMap (fun p => Gen.splinePredict fc mindist forces ([p.1] :: [p.2] :: crest)) := by
  unfold Gen.splinePredict
  simp only [List.getD_cons_zero, List.getD_cons_succ]
  exact src_predict_numpy_pointwise pts _ _ mindist forces

/-- **Point by point, vector case (about the regenerated source, no hypotheses).**  Each component of `predict_2d_numpy` at a list of query points
    is the list of that component's values at each point taken alone. -/
theorem src_predict_2d_numpy_pointwise (pts : List (α × α)) (fe fn : List α) (mindist poisson : α) (forces : List α) :
    Gen.predict2dNumpy (pts.map (·.1)) (pts.map (·.2)) fe fn mindist poisson forces
      = (pts.flatMap (fun p => (Gen.predict2dNumpy [p.1] [p.2] fe fn mindist poisson forces).1),
         pts.flatMap (fun p => (Gen.predict2dNumpy [p.1] [p.2] fe fn mindist poisson forces).2)) := by
  induction pts with
  | nil => simpa using predict_2d_numpy_nil fe fn mindist poisson forces
  | cons p ps ih =>
    have h := src_predict_2d_numpy_append [p.1] (ps.map (·.1)) [p.2] (ps.map (·.2)) fe fn mindist poisson forces rfl
    simp only [List.map_cons, List.singleton_append, List.flatMap_cons] at h ⊢
    rw [h, ih]

/-- `VectorSpline2D.predict` as regenerated from the source, point by point. -/
theorem src_vector_spline_predict_pointwise (pts : List (α × α)) (fc : List (List α)) (mindist poisson : α) (forces : List α) (crest : List (List α)) :
    Gen.vectorSplinePredict fc mindist poisson forces (pts.map (·.1) :: pts.map (·.2) :: crest)
      = (pts.flatMap (fun p => (Gen.vectorSplinePredict fc mindist poisson forces ([p.1] :: [p.2] :: crest)).1),
         pts.flatMap (fun p => (Gen.vectorSplinePredict fc mindist poisson forces ([p.1] :: [p.2] :: crest)).2)) := by
  unfold Gen.vectorSplinePredict
  simp only [List.getD_cons_zero, List.getD_cons_succ]
  exact src_predict_2d_numpy_pointwise pts _ _ mindist poisson forces

/-- Every query size is met by the hypotheses (a hundred thousand points, seven forces): premises satisfiable. -/
example : ((List.replicate 100000 (0 : Nat)).length = (List.replicate 100000 (1 : Nat)).length) := by
  rw [List.length_replicate, List.length_replicate]

end Loops

/-- **`Spline.predict` = `Spline.jacobian` · `force_`, about the regenerated source, for arrays of every length** (partial reals): the value the
    regenerated `predict` returns at the k-th query point is row k of the regenerated `jacobian` (same query, the fitted force positions)
    times the forces — no row is skipped, repeated or taken from another block. -/
theorem src_spline_predict_eq_jacobian_mul (pts : List (PReal × PReal)) (fe fn forces : List PReal) (frest crest : List (List PReal)) (mindist : PReal)
    (h1 : fe.length = forces.length) (h2 : fn.length = forces.length) :
    Gen.splinePredict (fe :: fn :: frest) mindist forces (pts.map (·.1) :: pts.map (·.2) :: crest)
      = (Gen.splineJacobian mindist (pts.map (·.1) :: pts.map (·.2) :: crest) (fe :: fn :: frest)).map
          fun row => psum (List.zipWith (· * ·) row forces) := by
  have hz : ∀ l : List (PReal × PReal), (l.map (·.1)).zip (l.map (·.2)) = l := by
    intro l
    induction l with
    | nil => rfl
    | cons p ps ih => simp [ih]
  rw [gen_spline_predict_all_eq_model pts fe fn forces frest crest mindist h1 h2, gen_spline_jacobian_eq_model, hz,
    spline_predict_eq_jac_mul]

end Verde.C03
