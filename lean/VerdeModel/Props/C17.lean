/-
  C17 — longitude_continuity yields a valid region with unchanged angular meaning.

  The model (`lonRegion`, `lonPoint`, `lonContinuity` in Model/Coords.lean) is the code's arithmetic verbatim.
  FULL STATEMENT (property): for every representable arc, not within the approximate full-globe band, the returned
  region has W ≤ E, width = eastward angle, bounds congruent mod 360, and a longitude is inside the returned region
  iff it is angularly within the original arc.
  On the pinned tree this is FALSE when the east bound lies on the seam of the selected convention (finding D4, see
  `seam_counterexample_*` below, replayed on the implementation by the harness).  The theorems proved here are the
  `_partial` versions carrying the explicit hypothesis `¬ EastOnSeam w e`; nothing else is missing.
-/
import VerdeModel.Lemmas.Mod
import VerdeModel.Gen.Coords
namespace Verde.C17
open Verde

/-- Bridge: the region arithmetic of `longitude_continuity` as regenerated from /repo's source text equals the model's. -/
theorem gen_lon_region_eq_model (w e s n : Rat) : Gen.lonRegion w e s n = lonRegion w e := by
  unfold Gen.lonRegion lonRegion
  cases h : allclose1 (ratAbs (e - w)) 360 <;> simp <;> split_ifs <;> simp_all

/-- Bridge: the longitude branch (`% 360`, or shift to `[-180, 180)`) as regenerated from the source equals the model's. -/
theorem gen_lon_point_eq_model (i360 : Bool) (lon : Rat) : Gen.lonPoint i360 lon = lonPoint i360 lon := by
  unfold Gen.lonPoint lonPoint
  cases i360
  · simp [pyMod_pyMod_add lon 180 360 (by norm_num)]
  · simp

/-- Bridge: `_check_geographic_region` as regenerated from the source equals the model's range checks. -/
theorem gen_check_geo_region_eq_model (w e s n : Rat) : Gen.checkGeoRegion w e s n = checkGeoRegion w e s n := by
  unfold Gen.checkGeoRegion checkGeoRegion
  by_cases h1 : w > 360 ∨ e > 360 ∨ w < -180 ∨ e < -180
  · have : ((w > 360 ∨ e > 360) ∨ w < -180 ∨ e < -180) := by tauto
    simp [h1, this]
  · have h1' : ¬ ((w > 360 ∨ e > 360) ∨ w < -180 ∨ e < -180) := by tauto
    by_cases h2 : s > 90 ∨ n > 90 ∨ s < -90 ∨ n < -90
    · have : ((s > 90 ∨ n > 90) ∨ s < -90 ∨ n < -90) := by tauto
      simp [h1, h1', h2, this]
    · have h2' : ¬ ((s > 90 ∨ n > 90) ∨ s < -90 ∨ n < -90) := by tauto
      simp [h1, h1', h2, h2']

/-- Bridge: `_check_geographic_coordinates` (regenerated, per point) rejects exactly the points the model's `lonContinuity`
    rejects: longitude outside [-180, 360] or latitude outside [-90, 90]. -/
theorem gen_geo_coord_bad_iff (lon lat : Rat) :
    Gen.geoCoordBad lon lat = .error .valueError ↔ (lon > 360 ∨ lon < -180) ∨ (lat > 90 ∨ lat < -90) := by
  unfold Gen.geoCoordBad
  split_ifs with h
  · simp [h]
  · simp [h]

def Congr360 (x y : Rat) : Prop := ∃ k : Int, x = y + 360 * (k : Rat)

/-- Eastward angle from `w` to `e` (a full-globe input is 360). -/
def eastAngle (w e : Rat) : Rat := if ratAbs (e - w) = 360 then 360 else pyMod (e - w) 360

/-- The arc fits in `[0, 360]` starting at `w mod 360`, or in `[-180, 180]` starting at the shifted `w`. -/
def Representable (w e : Rat) : Prop :=
  pyMod w 360 + eastAngle w e ≤ 360 ∨ (pyMod (pyMod w 360 + 180) 360 - 180) + eastAngle w e ≤ 180

/-- Finding D4: the east bound is on the seam of the convention the code selects. -/
def EastOnSeam (w e : Rat) : Prop :=
  ratAbs (e - w) ≠ 360 ∧
    ((pyMod e 360 = 0 ∧ pyMod w 360 ≠ 0) ∨ (pyMod w 360 > pyMod e 360 ∧ pyMod e 360 = 180))

/-- Outside the band where the documented full-globe test is approximate. -/
def NotApprox (w e : Rat) : Prop := allclose1 (ratAbs (e - w)) 360 = false ∨ ratAbs (e - w) = 360

theorem allclose_360 : allclose1 360 360 = true := by decide +kernel

theorem lonRegion_full (w e : Rat) (h : ratAbs (e - w) = 360) : lonRegion w e = (true, 0, 360) := by
  unfold lonRegion
  rw [h, allclose_360]
  simp only [if_true]
  have : ¬ ((0 : Rat) > 360) := by norm_num
  simp [this]

theorem lonRegion_notfull (w e : Rat) (hna : NotApprox w e) (h : ratAbs (e - w) ≠ 360) :
    lonRegion w e =
      if pyMod w 360 > pyMod e 360 then
        (false, pyMod (pyMod w 360 + 180) 360 - 180, pyMod (pyMod e 360 + 180) 360 - 180)
      else (true, pyMod w 360, pyMod e 360) := by
  have hf : allclose1 (ratAbs (e - w)) 360 = false := by
    rcases hna with h' | h'
    · exact h'
    · exact absurd h' h
  unfold lonRegion
  rw [hf]
  simp

theorem eastAngle_notfull (w e : Rat) (h : ratAbs (e - w) ≠ 360) :
    eastAngle w e = if pyMod w 360 > pyMod e 360 then pyMod e 360 - pyMod w 360 + 360
                    else pyMod e 360 - pyMod w 360 := by
  obtain ⟨⟨kw, hkw⟩, hw0, hw1⟩ := pyMod_spec w 360 (by norm_num)
  obtain ⟨⟨ke, hke⟩, he0, he1⟩ := pyMod_spec e 360 (by norm_num)
  unfold eastAngle
  rw [if_neg h]
  split_ifs with hgt
  · apply pyMod_unique (e - w) 360 _ (by norm_num) (by linarith) (by linarith) (ke - kw - 1)
    rw [hke, hkw]; push_cast; ring
  · apply pyMod_unique (e - w) 360 _ (by norm_num) (by linarith) (by linarith) (ke - kw)
    rw [hke, hkw]; push_cast; ring

/-- **Region theorem (partial: east bound not on the seam).**  The returned region is valid, its width is the
    eastward angle, its bounds are congruent to the inputs (a full-globe input becomes `0..360`). -/
theorem lon_region_valid_partial (w e : Rat) (hna : NotApprox w e) (hrep : Representable w e)
    (hseam : ¬ EastOnSeam w e) :
    (lonRegion w e).2.1 ≤ (lonRegion w e).2.2 ∧
    (lonRegion w e).2.2 - (lonRegion w e).2.1 = eastAngle w e ∧
    (ratAbs (e - w) = 360 → (lonRegion w e).2 = (0, 360)) ∧
    (ratAbs (e - w) ≠ 360 → Congr360 (lonRegion w e).2.1 w ∧ Congr360 (lonRegion w e).2.2 e) := by
  by_cases hfull : ratAbs (e - w) = 360
  · rw [lonRegion_full w e hfull]
    refine ⟨by norm_num, ?_, fun _ => rfl, fun h => absurd hfull h⟩
    simp [eastAngle, hfull]
  · obtain ⟨⟨kw, hkw⟩, hw0, hw1⟩ := pyMod_spec w 360 (by norm_num)
    obtain ⟨⟨ke, hke⟩, he0, he1⟩ := pyMod_spec e 360 (by norm_num)
    have hang := eastAngle_notfull w e hfull
    rw [lonRegion_notfull w e hna hfull]
    by_cases hgt : pyMod w 360 > pyMod e 360
    · -- the [-180, 180) convention is selected
      rw [if_pos hgt] at hang ⊢
      simp only []
      have hnseam1 : ¬ (pyMod e 360 = 0) := by
        intro h0
        exact hseam ⟨hfull, Or.inl ⟨h0, by intro hw; rw [hw, h0] at hgt; exact lt_irrefl _ hgt⟩⟩
      have hnseam2 : ¬ (pyMod e 360 = 180) := fun h180 => hseam ⟨hfull, Or.inr ⟨hgt, h180⟩⟩
      rcases shift180_cases (pyMod w 360) hw0 hw1 with ⟨hwl, hws⟩ | ⟨hwl, hws⟩
      · -- w1 < 180: not representable
        exfalso
        unfold Representable at hrep
        rw [hws, hang] at hrep
        rcases hrep with h | h
        · have : pyMod e 360 ≤ 0 := by linarith
          exact hnseam1 (le_antisymm this he0)
        · linarith
      · rcases shift180_cases (pyMod e 360) he0 he1 with ⟨hel, hes⟩ | ⟨hel, hes⟩
        · rw [hws, hes]
          refine ⟨by linarith, by rw [hang]; ring, fun h => absurd h hfull, fun _ => ⟨⟨-kw - 1, ?_⟩, ⟨-ke, ?_⟩⟩⟩
          · rw [hkw]; push_cast; ring
          · rw [hke]; push_cast; ring
        · exfalso
          unfold Representable at hrep
          rw [hws, hang] at hrep
          rcases hrep with h | h
          · have : pyMod e 360 ≤ 0 := by linarith
            exact hnseam1 (le_antisymm this he0)
          · have : pyMod e 360 ≤ 180 := by linarith
            exact hnseam2 (le_antisymm this hel)
    · rw [if_neg hgt] at hang ⊢
      simp only []
      refine ⟨not_lt.mp hgt, by rw [hang], fun h => absurd h hfull, fun _ => ⟨⟨-kw, ?_⟩, ⟨-ke, ?_⟩⟩⟩
      · rw [hkw]; push_cast; ring
      · rw [hke]; push_cast; ring

/-- Longitudes are moved to the convention of the returned region and stay congruent modulo 360. -/
theorem lon_point_congruent (i360 : Bool) (lon : Rat) :
    Congr360 (lonPoint i360 lon) lon ∧
    (if i360 then 0 ≤ lonPoint i360 lon ∧ lonPoint i360 lon < 360
     else -180 ≤ lonPoint i360 lon ∧ lonPoint i360 lon < 180) := by
  cases i360
  · obtain ⟨⟨k, hk⟩, h0, h1⟩ := pyMod_spec (lon + 180) 360 (by norm_num)
    simp only [lonPoint, Bool.false_eq_true, if_false]
    exact ⟨⟨-k, by rw [hk]; push_cast; ring⟩, by linarith, by linarith⟩
  · obtain ⟨⟨k, hk⟩, h0, h1⟩ := pyMod_spec lon 360 (by norm_num)
    simp only [lonPoint, if_true]
    exact ⟨⟨-k, by rw [hk]; push_cast; ring⟩, h0, h1⟩

/-- **Inside-iff (partial: east bound not on the seam).**  A longitude is inside the returned region exactly when
    it is angularly within the original arc (its eastward angle from `w` is at most the arc's width). -/
theorem lon_inside_iff_partial (w e lon : Rat) (hna : NotApprox w e) (hrep : Representable w e)
    (hseam : ¬ EastOnSeam w e) :
    ((lonRegion w e).2.1 ≤ lonPoint (lonRegion w e).1 lon ∧ lonPoint (lonRegion w e).1 lon ≤ (lonRegion w e).2.2)
      ↔ pyMod (lon - w) 360 ≤ eastAngle w e := by
  obtain ⟨⟨kd, hkd⟩, hd0, hd1⟩ := pyMod_spec (lon - w) 360 (by norm_num)
  by_cases hfull : ratAbs (e - w) = 360
  · rw [lonRegion_full w e hfull]
    obtain ⟨_, h0, h1⟩ := pyMod_spec lon 360 (by norm_num)
    simp only [lonPoint, if_true, eastAngle, hfull]
    constructor
    · intro _; linarith
    · intro _; exact ⟨h0, by linarith⟩
  · obtain ⟨⟨kw, hkw⟩, hw0, hw1⟩ := pyMod_spec w 360 (by norm_num)
    obtain ⟨⟨ke, hke⟩, he0, he1⟩ := pyMod_spec e 360 (by norm_num)
    have hang := eastAngle_notfull w e hfull
    have hvalid := lon_region_valid_partial w e hna hrep hseam
    rw [lonRegion_notfull w e hna hfull] at hvalid ⊢
    by_cases hgt : pyMod w 360 > pyMod e 360
    · rw [if_pos hgt] at hang hvalid ⊢
      simp only [lonPoint, Bool.false_eq_true, if_false] at hvalid ⊢
      obtain ⟨⟨ky, hky⟩, hy0, hy1⟩ := pyMod_spec (lon + 180) 360 (by norm_num)
      set y := pyMod (lon + 180) 360 - 180 with hy
      rcases shift180_cases (pyMod w 360) hw0 hw1 with ⟨hwl, hws⟩ | ⟨hwl, hws⟩
      · -- impossible (see region theorem): W = w1 > E
        exfalso
        rcases shift180_cases (pyMod e 360) he0 he1 with ⟨hel, hes⟩ | ⟨hel, hes⟩
        · rw [hws, hes] at hvalid; linarith [hvalid.1]
        · rw [hws, hes] at hvalid; linarith [hvalid.1]
      · rcases shift180_cases (pyMod e 360) he0 he1 with ⟨hel, hes⟩ | ⟨hel, hes⟩
        · rw [hws, hes, hang]
          by_cases hyW : pyMod w 360 - 360 ≤ y
          · have hd : pyMod (lon - w) 360 = y - (pyMod w 360 - 360) := by
              apply pyMod_unique (lon - w) 360 _ (by norm_num) (by linarith) (by linarith) (ky - kw - 1)
              rw [hy, hky, hkw]; push_cast; ring
            rw [hd]
            constructor
            · intro h; linarith [h.2]
            · intro h; exact ⟨hyW, by linarith⟩
          · have hd : pyMod (lon - w) 360 = y - (pyMod w 360 - 360) + 360 := by
              apply pyMod_unique (lon - w) 360 _ (by norm_num) (by linarith) (by linarith) (ky - kw - 2)
              rw [hy, hky, hkw]; push_cast; ring
            rw [hd]
            constructor
            · intro h; exact absurd h.1 hyW
            · intro h; exfalso; linarith
        · exfalso
          rw [hws, hes] at hvalid; linarith [hvalid.1]
    · rw [if_neg hgt] at hang hvalid ⊢
      simp only [lonPoint, if_true] at hvalid ⊢
      obtain ⟨⟨ky, hky⟩, hy0, hy1⟩ := pyMod_spec lon 360 (by norm_num)
      rw [hang]
      by_cases hyW : pyMod w 360 ≤ pyMod lon 360
      · have hd : pyMod (lon - w) 360 = pyMod lon 360 - pyMod w 360 := by
          apply pyMod_unique (lon - w) 360 _ (by norm_num) (by linarith) (by linarith) (ky - kw)
          rw [hky, hkw]; push_cast; ring
        rw [hd]
        constructor
        · intro h; linarith [h.2]
        · intro h; exact ⟨hyW, by linarith⟩
      · have hd : pyMod (lon - w) 360 = pyMod lon 360 - pyMod w 360 + 360 := by
          apply pyMod_unique (lon - w) 360 _ (by norm_num) (by linarith) (by linarith) (ky - kw - 1)
          rw [hky, hkw]; push_cast; ring
        rw [hd]
        constructor
        · intro h; exact absurd h.1 hyW
        · intro h; exfalso; linarith

/-- Latitudes are untouched and out-of-range input is rejected. -/
theorem lon_latitudes_untouched (w e s n : Rat) (lons lats : List Rat) (r : Region) (out : List Rat)
    (h : lonContinuity w e s n lons lats = .ok (r, out)) : r.s = s ∧ r.n = n ∧ out.length = lons.length := by
  unfold lonContinuity at h
  cases hc : checkGeoRegion w e s n with
  | error err => simp [hc, bind, Except.bind] at h
  | ok u =>
    simp only [hc, bind, Except.bind] at h
    split_ifs at h
    simp only [pure, Except.pure, Except.ok.injEq, Prod.mk.injEq] at h
    obtain ⟨hr, ho⟩ := h
    subst hr; subst ho
    simp

theorem lon_rejects_out_of_range_region (w e s n : Rat) (lons lats : List Rat)
    (h : w > 360 ∨ e > 360 ∨ w < -180 ∨ e < -180 ∨ s > 90 ∨ n > 90 ∨ s < -90 ∨ n < -90 ∨ ratAbs (e - w) > 360) :
    lonContinuity w e s n lons lats = .error .valueError := by
  have hc : checkGeoRegion w e s n = .error .valueError := by
    unfold checkGeoRegion
    split_ifs with h1 h2 h3
    · rfl
    · rfl
    · rfl
    · exfalso
      rcases h with h | h | h | h | h | h | h | h | h
      · exact h1 (Or.inl h)
      · exact h1 (Or.inr (Or.inl h))
      · exact h1 (Or.inr (Or.inr (Or.inl h)))
      · exact h1 (Or.inr (Or.inr (Or.inr h)))
      · exact h2 (Or.inl h)
      · exact h2 (Or.inr (Or.inl h))
      · exact h2 (Or.inr (Or.inr (Or.inl h)))
      · exact h2 (Or.inr (Or.inr (Or.inr h)))
      · exact h3 h
  simp [lonContinuity, hc, bind, Except.bind]

theorem lon_rejects_out_of_range_longitude (w e s n : Rat) (lons lats : List Rat) (l : Rat) (hl : l ∈ lons)
    (hbad : l > 360 ∨ l < -180) : ∃ err, lonContinuity w e s n lons lats = .error err := by
  unfold lonContinuity
  cases hc : checkGeoRegion w e s n with
  | error err => exact ⟨err, by simp [bind, Except.bind]⟩
  | ok u =>
    refine ⟨.valueError, ?_⟩
    have : lons.any (fun l => decide (l > 360 ∨ l < -180)) = true := by
      simp only [List.any_eq_true]
      exact ⟨l, hl, by simpa using hbad⟩
    simp only [bind, Except.bind]
    rw [if_pos this]

/-! ### Finding D4: witnesses that the full statement fails on the seam (replayed on the implementation). -/
theorem seam_counterexample_360 : (lonRegion 10 360).2 = (10, 0) := by decide +kernel
theorem seam_counterexample_180 : (lonRegion (-170) 180).2 = (-170, -180) := by decide +kernel
theorem seam_counterexample_zero : (lonRegion 10 0).2 = (10, 0) := by decide +kernel

/-! Non-vacuity: concrete arcs meeting all hypotheses, in both conventions and full globe. -/
example : NotApprox 350 10 ∧ Representable 350 10 ∧ ¬ EastOnSeam 350 10 ∧ lonRegion 350 10 = (false, -10, 10) := by
  refine ⟨Or.inl (by decide +kernel), Or.inr (by decide +kernel), ?_, by decide +kernel⟩
  rintro ⟨_, h | h⟩
  · exact absurd h.1 (by decide +kernel)
  · exact absurd h.2 (by decide +kernel)
example : NotApprox (-70) (-60) ∧ Representable (-70) (-60) ∧ lonRegion (-70) (-60) = (true, 290, 300) :=
  ⟨Or.inl (by decide +kernel), Or.inl (by decide +kernel), by decide +kernel⟩
example : NotApprox (-20) 340 ∧ lonRegion (-20) 340 = (true, 0, 360) :=
  ⟨Or.inr (by decide +kernel), by decide +kernel⟩

/-! ### The regenerated source satisfies the property -/
/-- The translated longitude branch: longitudes stay congruent modulo 360 and land in the convention of the returned region. -/
theorem src_lon_point_congruent (i360 : Bool) (lon : Rat) :
    Congr360 (Gen.lonPoint i360 lon) lon ∧
    (if i360 then 0 ≤ Gen.lonPoint i360 lon ∧ Gen.lonPoint i360 lon < 360 else -180 ≤ Gen.lonPoint i360 lon ∧ Gen.lonPoint i360 lon < 180) := by
  rw [gen_lon_point_eq_model]; exact lon_point_congruent i360 lon

end Verde.C17
