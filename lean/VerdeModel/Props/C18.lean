/-
  C18 — Grid <-> table conversions preserve every value at its own coordinates.
-/
import VerdeModel.Gen.MakeGrid
import VerdeModel.Gen.Grid
import VerdeModel.Lemmas.Grid
import VerdeModel.Lemmas.Num
namespace Verde.C18
open Verde

/-- **Table rows.**  Row `k` of `grid_to_table` is cell `(k / ne, k % ne)`: it holds that cell's northing, easting and
    (for every rectangular variable or extra coordinate) that cell's value — row-major order. -/
theorem table_row_coords (ds : Dataset) (k : Nat) (hk : k < ds.north.length * ds.east.length) :
    ∃ c0 c1 rest, gridToTable ds = (ds.dims.1, c0) :: (ds.dims.2, c1) :: rest ∧
      c0[k]? = some (ds.north.getD (k / ds.east.length) 0) ∧
      c1[k]? = some (ds.east.getD (k % ds.east.length) 0) := by
  refine ⟨_, _, _, rfl, ?_, ?_⟩ <;> simp [List.getElem?_map, List.getElem?_range hk]

theorem table_row_value (a : Arr2) (nn ne : Nat) (hrect : isRect a nn ne = true) (k : Nat) (hk : k < nn * ne) :
    (ravel2 a)[k]? = (a[k / ne]?.bind fun r => r[k % ne]?) := by
  obtain ⟨hl, hr⟩ := isRect_spec a nn ne hrect
  have hne : 0 < ne := by
    rcases Nat.eq_zero_or_pos ne with h | h
    · subst h; simp at hk
    · exact h
  have hi : k / ne < a.length := by rw [hl, Nat.div_lt_iff_lt_mul hne]; exact hk
  have := flatten_uniform_getElem a ne hr (k / ne) (k % ne) hi (Nat.mod_lt _ hne)
  have hdecomp : k / ne * ne + k % ne = k := by
    have := Nat.div_add_mod k ne; rw [Nat.mul_comm] at this; exact this
  rw [hdecomp] at this
  exact this

/-- Variables and extra coordinates appear in the table under their own names, raveled row-major, after the two
    coordinate columns named by the dims. -/
theorem table_columns (ds : Dataset) :
    (gridToTable ds).map (·.1) = ds.dims.1 :: ds.dims.2 :: (ds.extras.map (·.1) ++ ds.vars.map (·.1)) ∧
    (∀ p ∈ ds.vars, (p.1, ravel2 p.2) ∈ gridToTable ds) ∧ (∀ p ∈ ds.extras, (p.1, ravel2 p.2) ∈ gridToTable ds) := by
  refine ⟨?_, ?_, ?_⟩
  · simp only [gridToTable, List.map_cons, List.map_append, List.map_map, List.cons_append]
    rfl
  · intro p hp
    simp only [gridToTable, List.mem_cons, List.mem_append, List.mem_map, List.cons_append]
    right; right; right
    exact ⟨p, hp, rfl⟩
  · intro p hp
    simp only [gridToTable, List.mem_cons, List.mem_append, List.mem_map, List.cons_append]
    right; right; left
    exact ⟨p, hp, rfl⟩

/-- **Grid cells (1-D coordinates).**  `make_xarray_grid` stores every data / extra-coordinate array untouched under its
    name, with the given axes and dims: cell `(i, j)` of a variable is the source cell `(i, j)` at `(north[i], east[j])`. -/
theorem make_grid_1d (e n : List Rat) (extras data : List Arr2) (names exn : List String) (dims : String × String)
    (hex : exn.length = extras.length) (hn : names.length = data.length)
    (hrect : ((extras ++ data).all fun a => isRect a n.length e.length) = true)
    (hne : extras ≠ []) :
    makeGrid (.d1 e) (.d1 n) extras (some data) (some names) dims (some exn) =
      .ok ⟨dims, e, n, exn.zip extras, names.zip data⟩ := by
  have h1 : extras.isEmpty = false := by cases extras <;> simp_all
  simp [makeGrid, checkNames, hex, hn, hrect, h1, bind, Except.bind, pure, Except.pure]

theorem make_grid_1d_no_extras (e n : List Rat) (data : List Arr2) (names : List String) (dims : String × String)
    (exn : Option (List String)) (hn : names.length = data.length)
    (hrect : (data.all fun a => isRect a n.length e.length) = true) :
    makeGrid (.d1 e) (.d1 n) [] (some data) (some names) dims exn = .ok ⟨dims, e, n, [], names.zip data⟩ := by
  simp [makeGrid, checkNames, hn, hrect, bind, Except.bind, pure, Except.pure]

/-- The 1-D/2-D coordinate conversions are mutually inverse: raveling out a meshgrid of axes gives the axes back … -/
theorem to1d_from1d (e n : List Rat) (he : e ≠ []) (hn : n ≠ []) :
    meshgridTo1d (meshgridFrom1d e n).1 (meshgridFrom1d e n).2 [] = .ok (e, n) := by
  obtain ⟨n0, ns, rfl⟩ := List.exists_cons_of_ne_nil hn
  obtain ⟨e0, es, rfl⟩ := List.exists_cons_of_ne_nil he
  have hall : ∀ l : List Rat, (List.zipWith allclose1 l l).all id = true := by
    intro l; induction l with
    | nil => simp
    | cons x xs ih => simpa [allclose1_self] using ih
  have hcol : ((n0 :: ns).map fun y => (e0 :: es).map fun _ => y).map (fun row => row.headD 0) = n0 :: ns := by
    rw [List.map_map]
    conv_rhs => rw [← List.map_id (n0 :: ns)]
    apply List.map_congr_left
    intro y _; simp
  have hrect1 : isRect ((n0 :: ns).map fun _ => e0 :: es) (ns.length + 1) (es.length + 1) = true := by
    simp [isRect]
  have hrect2 : isRect ((n0 :: ns).map fun y => (e0 :: es).map fun _ => y) (ns.length + 1) (es.length + 1) = true := by
    simp [isRect]
  have hmesh : checkMeshgrid ((n0 :: ns).map fun _ => e0 :: es)
      ((n0 :: ns).map fun y => (e0 :: es).map fun _ => y) = true := by
    simp [checkMeshgrid, allclose1_self, hall]
  have hnc : ncols ((n0 :: ns).map fun _ => e0 :: es) = es.length + 1 := by simp [ncols]
  have hlen : ((n0 :: ns).map fun _ => e0 :: es).length = ns.length + 1 := by simp
  unfold meshgridFrom1d meshgrid meshgridTo1d
  simp only [hnc, hlen, hrect1, hrect2, hmesh, List.all_nil, Bool.and_self, Bool.not_true, Bool.false_eq_true,
    if_false, hcol]
  simp

/-- … and an exact meshgrid is rebuilt from its first row and first column. -/
theorem from1d_to1d (E N : Arr2) (e n : List Rat)
    (hE : ∀ r ∈ E, r = e) (hN : N = n.map fun y => e.map fun _ => y) (hlen : E.length = n.length) :
    meshgridFrom1d e n = (E, N) := by
  simp only [meshgridFrom1d, meshgrid, Prod.mk.injEq]
  refine ⟨?_, hN.symm⟩
  apply List.ext_getElem
  · simp [hlen]
  · intro i h1 h2
    simp only [List.getElem_map]
    exact (hE _ (List.getElem_mem h2)).symm

/-- The table's coordinate columns are the raveled meshgrid of the axes (so grid → table returns the raveled inputs). -/
theorem table_coords_are_raveled_meshgrid (east north : List Rat) (k : Nat) (hk : k < north.length * east.length) :
    (ravel2 (meshgrid east north).1)[k]? = some (east.getD (k % east.length) 0) ∧
    (ravel2 (meshgrid east north).2)[k]? = some (north.getD (k / east.length) 0) := by
  have hne : 0 < east.length := by
    rcases Nat.eq_zero_or_pos east.length with h | h
    · rw [h] at hk; simp at hk
    · exact h
  have hi : k / east.length < north.length := by rw [Nat.div_lt_iff_lt_mul hne]; exact hk
  have hj : k % east.length < east.length := Nat.mod_lt _ hne
  have r1 : isRect (meshgrid east north).1 north.length east.length = true := by simp [isRect, meshgrid]
  have r2 : isRect (meshgrid east north).2 north.length east.length = true := by simp [isRect, meshgrid]
  rw [table_row_value _ _ _ r1 k hk, table_row_value _ _ _ r2 k hk]
  simp [meshgrid, List.getElem?_map, List.getElem?_eq_getElem hi, List.getElem?_eq_getElem hj,
    List.getD_eq_getElem?_getD, List.getElem?_replicate, hi, hj]

/-- Rejections: mixed 1-D/2-D coordinates, missing or mis-counted names, 2-D inputs that are not meshgrids,
    arrays whose shape disagrees with the axes. -/
theorem mixed_dims_rejected (e : List Rat) (N : Arr2) (ex : List Arr2) (d : Option (List Arr2))
    (nm exn : Option (List String)) (dims : String × String) :
    makeGrid (.d1 e) (.d2 N) ex d nm dims exn = .error .valueError ∧
    makeGrid (.d2 N) (.d1 e) ex d nm dims exn = .error .valueError := by
  constructor <;> simp [makeGrid, bind, Except.bind]

theorem name_count_mismatch_rejected (n : Nat) (names : List String) (h : names.length ≠ n) :
    checkNames n (some names) = .error .valueError ∧ checkNames n none = .error .valueError := by
  simp [checkNames, h]

theorem data_names_checked (e n : List Rat) (data : List Arr2) (names : Option (List String)) (dims : String × String)
    (h : ∀ ns, names = some ns → ns.length ≠ data.length) :
    makeGrid (.d1 e) (.d1 n) [] (some data) names dims none = .error .valueError := by
  cases names with
  | none => simp [makeGrid, checkNames, bind, Except.bind, pure, Except.pure]
  | some ns => simp [makeGrid, checkNames, h ns rfl, bind, Except.bind, pure, Except.pure]

theorem non_meshgrid_rejected (E N : Arr2) (ex : List Arr2) (h : checkMeshgrid E N = false) :
    meshgridTo1d E N ex = .error .valueError := by
  unfold meshgridTo1d
  simp only []
  split_ifs <;> simp_all

theorem wrong_shape_rejected (e n : List Rat) (a : Arr2) (name : String) (dims : String × String)
    (h : isRect a n.length e.length = false) :
    makeGrid (.d1 e) (.d1 n) [] (some [a]) (some [name]) dims none = .error .valueError := by
  simp [makeGrid, checkNames, h, bind, Except.bind, pure, Except.pure]

/-- Custom dimension names are respected by both directions. -/
theorem custom_dims_respected (ds : Dataset) : ((gridToTable ds).map (·.1)).take 2 = [ds.dims.1, ds.dims.2] := by
  simp [gridToTable]

/-! Non-vacuity -/
example : (makeGrid (.d1 [1, 2, 4]) (.d1 [10, 20]) [] (some [[[0, 1, 2], [3, 4, 5]]]) (some ["a"]) ("lat", "lon") none).toOption.map
    gridToTable = some [("lat", [10, 10, 10, 20, 20, 20]), ("lon", [1, 2, 4, 1, 2, 4]), ("a", [0, 1, 2, 3, 4, 5])] := by
  decide +kernel
example : checkMeshgrid [[1, 2, 4], [1, 5/2, 4]] [[10, 10, 10], [20, 20, 20]] = false := by decide +kernel

/-! ### Bridge: `grid_to_table` regenerated from source -/

theorem find_self {β : Type} (l : List (String × β)) (p : String × β) (hp : p ∈ l) (hn : (l.map (·.1)).Nodup) :
    l.find? (fun q => q.1 == p.1) = some p := by
  induction l with
  | nil => cases hp
  | cons q rest ih =>
    simp only [List.map_cons, List.nodup_cons] at hn
    rcases List.mem_cons.mp hp with h | h
    · subst h; simp
    · have hne : q.1 ≠ p.1 := by
        intro he
        exact hn.1 (he ▸ List.mem_map_of_mem h)
      simp [List.find?_cons, hne, ih h hn.2]

/-- Looking every name of an association list up in that list gives the list back (distinct names). -/
theorem zip_lookups (l : List (String × Arr2)) (hn : (l.map (·.1)).Nodup) :
    (l.map (·.1)).zip ((l.map (·.1)).map fun name => ravel2 (((l.find? fun p => p.1 == name).map (·.2)).getD []))
      = l.map fun p => (p.1, ravel2 p.2) := by
  apply List.ext_getElem
  · simp
  · intro i h1 h2
    simp only [List.getElem_zip, List.getElem_map]
    have hi : i < l.length := by simpa using h2
    have := find_self l l[i] (List.getElem_mem hi) hn
    simp [this]

theorem fold_append (ds : Dataset) (extra : List String) (cs : List (List Rat)) (ns : List String) :
    extra.foldl (fun (st : List (List Rat) × List String) coord => (st.1 ++ [ravel2 (ds.extraOf coord)], st.2 ++ [coord])) (cs, ns)
      = (cs ++ extra.map fun c => ravel2 (ds.extraOf c), ns ++ extra) := by
  induction extra generalizing cs ns with
  | nil => simp
  | cons c rest ih => simp [List.foldl_cons, ih]

theorem ravel_mesh_east (east north : List Rat) :
    ravel2 (meshgrid east north).1 = (List.range (north.length * east.length)).map fun k => east.getD (k % east.length) 0 := by
  apply List.ext_getElem?
  intro k
  by_cases hk : k < north.length * east.length
  · rw [(table_coords_are_raveled_meshgrid east north k hk).1]
    simp [List.getElem?_map, List.getElem?_range hk]
  · have hlen : (ravel2 (meshgrid east north).1).length = north.length * east.length := by
      simp only [ravel2, meshgrid]
      rw [flatten_uniform_length _ east.length (by intro r hr; simp at hr; obtain ⟨_, _, rfl⟩ := hr; rfl)]
      simp
    rw [List.getElem?_eq_none (by omega), List.getElem?_eq_none (by simp; omega)]

theorem ravel_mesh_north (east north : List Rat) :
    ravel2 (meshgrid east north).2 = (List.range (north.length * east.length)).map fun k => north.getD (k / east.length) 0 := by
  apply List.ext_getElem?
  intro k
  by_cases hk : k < north.length * east.length
  · rw [(table_coords_are_raveled_meshgrid east north k hk).2]
    simp [List.getElem?_map, List.getElem?_range hk]
  · have hlen : (ravel2 (meshgrid east north).2).length = north.length * east.length := by
      simp only [ravel2, meshgrid]
      rw [flatten_uniform_length _ east.length (by intro r hr; simp at hr; obtain ⟨_, _, rfl⟩ := hr; simp)]
      simp
    rw [List.getElem?_eq_none (by omega), List.getElem?_eq_none (by simp; omega)]

/-- **Bridge.**  `grid_to_table` (Dataset branch) as regenerated STATEMENT BY STATEMENT from /repo's source text on every run — the variable and dimension
    names, `north`/`east` looked up under `coordinate_names[0]`/`[1]` (indices read from the source), `np.meshgrid(east, north)` raveled and
    reversed (argument order and the `[::-1]` read from the source), the extra coordinates appended in `coords.keys()` order, and the two
    `zip`s into the column dictionary — equals the model's table for every Dataset with distinct names: one row per cell in row-major order
    with that cell's northing, easting, extra coordinates and variables. -/
theorem gen_grid_to_table_eq_model (ds : Dataset) (keys : List String)
    (hd : ds.dims.1 ≠ ds.dims.2)
    (hkeys : keys.filter (fun coord => !([ds.dims.1, ds.dims.2].contains coord)) = ds.extras.map (·.1))
    (hex : (ds.extras.map (·.1)).Nodup) (hv : (ds.vars.map (·.1)).Nodup) :
    Gen.gridToTable ds keys = gridToTable ds := by
  unfold Gen.gridToTable gridToTable
  simp only [hkeys, fold_append, List.getD_cons_zero, List.getD_cons_succ]
  have hn : ds.coordOf ds.dims.1 = ds.north := by simp [Dataset.coordOf]
  have he : ds.coordOf ds.dims.2 = ds.east := by
    have : (ds.dims.2 == ds.dims.1) = false := by simpa using Ne.symm hd
    simp [Dataset.coordOf, this]
  simp only [hn, he, List.map_cons, List.map_nil, List.reverse_cons, List.reverse_nil, List.nil_append, List.cons_append]
  have hex' := zip_lookups ds.extras hex
  have hv' := zip_lookups ds.vars hv
  simp only [Dataset.extraOf, Dataset.varOf, List.zip_cons_cons]
  rw [hex', hv', ravel_mesh_north, ravel_mesh_east]
  simp

/-! ### Bridge: `make_xarray_grid`, `meshgrid_to_1d`, `check_extra_coords_names` regenerated from source (Gen/MakeGrid.lean) -/

theorem gen_check_extra_names (e n : CoordArr) (extras : List Arr2) (names : Option (List String)) :
    Gen.checkExtraCoordsNames (e :: n :: extras.map .d2) names = checkNames extras.length names := by
  unfold Gen.checkExtraCoordsNames checkNames
  cases names with
  | none => rfl
  | some ns =>
    simp only [List.drop_succ_cons, List.drop_zero, List.length_map]
    by_cases h : ns.length = extras.length
    · simp [h, pure, Except.pure]
    · have : extras.length ≠ ns.length := fun x => h x.symm
      simp [h, this, bind, Except.bind, throw, throwThe, MonadExceptOf.throw]

theorem gen_check_data_names' (k : Nat) (names : Option (List String)) :
    (match names with | some n => Gen.checkDataNames k n | none => (throw Err.valueError : Except Err (List String))) = checkNames k names := by
  unfold checkNames
  cases names with
  | none => rfl
  | some ns =>
    unfold Gen.checkDataNames
    by_cases h : ns.length = k
    · subst h; simp [pure, Except.pure]
    · have : k ≠ ns.length := fun x => h x.symm
      simp [h, this, bind, Except.bind, throw, throwThe, MonadExceptOf.throw]

theorem checkNames_length (k : Nat) (x : Option (List String)) (v : List String) (h : checkNames k x = .ok v) : v.length = k := by
  unfold checkNames at h
  cases x with
  | none => cases h
  | some ns =>
    simp only at h
    split_ifs at h with hl
    cases h; exact hl

theorem zip_snd {α β : Type} (v : List α) (l : List β) (h : v.length = l.length) : (v.zip l).map (·.2) = l :=
  List.map_snd_zip (by omega)

/-- Everything `make_xarray_grid` does once the horizontal coordinates are 1-D. -/
theorem makegrid_tail (e n : List Rat) (extras : List Arr2) (data : Option (List Arr2)) (names : Option (List String)) (dims : String × String)
    (exn : Option (List String)) (hd : dims.1 ≠ dims.2) :
    (do
      let coords := [(dims.2, (CoordArr.d1 e :: CoordArr.d1 n :: extras.map CoordArr.d2).getD 0 (.d1 [])),
                     (dims.1, (CoordArr.d1 e :: CoordArr.d1 n :: extras.map CoordArr.d2).getD 1 (.d1 []))]
      let extra ← (if ((CoordArr.d1 e :: CoordArr.d1 n :: extras.map CoordArr.d2).drop 2).isEmpty then pure [] else do
          let extra_coords_names ← Gen.checkExtraCoordsNames (CoordArr.d1 e :: CoordArr.d1 n :: extras.map CoordArr.d2) exn
          pure (extra_coords_names.zip (((CoordArr.d1 e :: CoordArr.d1 n :: extras.map CoordArr.d2).drop 2).map CoordArr.toArr2)))
      let data_vars ← (match data with
        | none => pure none
        | some data => do
          let data_names ← (match names with | some n => Gen.checkDataNames data.length n | none => throw Err.valueError)
          pure (some (data_names.zip data)))
      xrDataset dims coords extra data_vars : Except Err Dataset)
    = (do
      let exNames ← if extras.isEmpty then pure [] else checkNames extras.length exn
      let (dNames, dArrs) ← match data with
        | none => pure ([], [])
        | some ds => do let ns ← checkNames ds.length names; pure (ns, ds)
      if !((extras ++ dArrs).all fun a => isRect a n.length e.length) then Except.error Err.valueError
      pure ⟨dims, e, n, exNames.zip extras, dNames.zip dArrs⟩) := by
  have hmap : (extras.map CoordArr.d2).map CoordArr.toArr2 = extras := by simp [Function.comp_def, CoordArr.toArr2]
  have hne : (dims.2 == dims.1) = false := by simp; exact fun h => hd h.symm
  have hxr : ∀ (ex : List (String × Arr2)) (vs : Option (List (String × Arr2))),
      xrDataset dims [(dims.2, CoordArr.d1 e), (dims.1, CoordArr.d1 n)] ex vs
        = (if !((ex.map (·.2) ++ (vs.getD []).map (·.2)).all fun a => isRect a n.length e.length) then .error .valueError
           else .ok ⟨dims, e, n, ex, vs.getD []⟩) := by
    intro ex vs
    simp [xrDataset, List.find?, hne]
  simp only [List.getD_cons_zero, List.getD_cons_succ, List.drop_succ_cons, List.drop_zero, gen_check_extra_names, gen_check_data_names', hmap,
    List.isEmpty_map, hxr, bind, Except.bind, pure, Except.pure]
  by_cases hemp : extras.isEmpty = true
  · have he : extras = [] := List.isEmpty_iff.mp hemp
    subst he
    simp only [List.isEmpty_nil, if_true, List.map_nil, List.nil_append, List.zip_nil_right]
    cases data with
    | none => simp
    | some ds =>
      simp only []
      cases hc : checkNames ds.length names with
      | error er => rfl
      | ok v =>
        simp only [Option.getD_some, zip_snd v ds (checkNames_length _ _ _ hc)]
  · simp only [hemp, if_false, Bool.false_eq_true]
    cases hx : checkNames extras.length exn with
    | error er => rfl
    | ok v =>
      simp only [zip_snd v extras (checkNames_length _ _ _ hx)]
      cases data with
      | none => simp
      | some ds =>
        simp only []
        cases hc : checkNames ds.length names with
        | error er => rfl
        | ok v1 =>
          simp only [Option.getD_some, zip_snd v1 ds (checkNames_length _ _ _ hc)]

/-- **Bridge.**  `get_ndim_horizontal_coords` as regenerated from the source, called with `*coordinates[:2]`, is the model's `ndimHorizontal`. -/
theorem gen_get_ndim_eq_model (xy : List CoordArr) : star2 Gen.getNdimHorizontalCoords xy = ndimHorizontal xy := by
  match xy with
  | [] => rfl
  | [a] => cases a <;> rfl
  | [a, b] => cases a <;> cases b <;> rfl
  | a :: b :: c :: r => cases a <;> cases b <;> rfl

theorem allcloseRows_self (E : Arr2) :
    Gen.allcloseRows E E false = E.all fun row => row.length == (E.headD []).length && (List.zipWith allclose1 (E.headD []) row).all id := by
  simp [Gen.allcloseRows]

theorem zipWith_self_all {α : Type} (l : List α) (p : α → α → Bool) : (List.zipWith p l l).all id = l.all fun x => p x x := by
  induction l with
  | nil => rfl
  | cons x xs ih => simp only [List.zipWith_cons_cons, List.all_cons, ih]; rfl

theorem allcloseCols_self (N : Arr2) :
    Gen.allcloseCols N N false = N.all fun row => row.all fun v => allclose1 (row.headD 0) v := by
  simp only [Gen.allcloseCols, beq_self_eq_true, Bool.true_and, Bool.false_eq_true, if_false]
  exact zipWith_self_all N _

theorem two_checks (a b : Bool) :
    (do
      if !a then throw Err.valueError
      if !b then throw Err.valueError
      pure () : Except Err Unit) = if (a && b) = true then .ok () else .error .valueError := by
  cases a <;> cases b <;> rfl

/-- **Bridge.**  `check_meshgrid` as regenerated from the source — `np.allclose(easting[0, :], easting)` and
    `np.allclose(northing[:, 0][:, None], northing)`, which arrays and which slices read from the syntax tree — is the model's check: every row of
    the easting equals (allclose) the first row, every northing row is constant (allclose to its first entry). -/
theorem gen_check_meshgrid_eq_model (cs : List CoordArr) : Gen.checkMeshgrid cs = checkMeshgridE cs := by
  unfold Gen.checkMeshgrid checkMeshgridE checkMeshgrid
  simp only [allcloseRows_self, allcloseCols_self]
  exact two_checks _ _

/-- **Bridge.**  `make_xarray_grid` as regenerated from the source (with the regenerated `meshgrid_to_1d`, `check_meshgrid`, `get_ndim_horizontal_coords` and `check_extra_coords_names`) is the
    model's `makeGrid`, for 1-D and 2-D horizontal coordinates, any extras, data, names and distinct dimension names. -/
theorem gen_make_xarray_grid_eq_model (east north : CoordArr) (extras : List Arr2) (data : Option (List Arr2)) (names : Option (List String))
    (dims : String × String) (exn : Option (List String)) (hd : dims.1 ≠ dims.2) :
    Gen.makeXarrayGrid (east :: north :: extras.map .d2) data names dims exn = makeGrid east north extras data names dims exn := by
  unfold Gen.makeXarrayGrid makeGrid
  rw [gen_get_ndim_eq_model]
  cases east with
  | d1 e => cases north with
    | d1 n =>
      simp only [List.take_succ_cons, List.take_zero, ndimHorizontal, bind, Except.bind, pure, Except.pure, OfNat.ofNat_ne_one, if_false,
        show ((1 : Nat) = 2) = False from by simp]
      exact makegrid_tail e n extras data names dims exn hd
    | d2 N => rfl
  | d2 E => cases north with
    | d1 n => rfl
    | d2 N =>
      simp only [List.take_succ_cons, List.take_zero, ndimHorizontal, bind, Except.bind, pure, Except.pure, if_true, Gen.meshgridTo1d,
        gen_check_meshgrid_eq_model, meshgridTo1d, checkCoordinates2, checkMeshgridE, List.all_cons, List.all_map, Function.comp_def, CoordArr.toArr2,
        List.getD_cons_zero, List.getD_cons_succ, firstRow, firstCol, List.drop_succ_cons, List.drop_zero]
      by_cases hr : (isRect E E.length (ncols E) && isRect N E.length (ncols E) && extras.all fun x => isRect x E.length (ncols E)) = true
      · have hr' : (isRect E E.length (ncols E) && (isRect N E.length (ncols E) && extras.all fun x => isRect x E.length (ncols E))) = true := by
          rw [← Bool.and_assoc]; exact hr
        simp only [hr, hr', if_true, Bool.not_true, Bool.false_eq_true, if_false]
        by_cases hm : checkMeshgrid E N = true
        · simp only [hm, if_true, Bool.not_true, Bool.false_eq_true, if_false]
          exact makegrid_tail _ _ extras data names dims exn hd
        · simp [hm]
      · have hr' : ¬ (isRect E E.length (ncols E) && (isRect N E.length (ncols E) && extras.all fun x => isRect x E.length (ncols E))) = true := by
          rw [← Bool.and_assoc]; exact hr
        simp [hr, hr']

/-- **Orientation of `make_xarray_grid`, about the source as it is now:** for 1-D axes `e`, `n` and arrays of shape `(len(n), len(e))` the regenerated
    function returns a grid whose `dims[1]` coordinate is `e` (the FIRST array handed over), whose `dims[0]` coordinate is `n`, with the extra
    coordinates and the data variables under the names given, in order. -/
theorem src_make_xarray_grid_1d (e n : List Rat) (extras data : List Arr2) (names exn : List String) (dims : String × String)
    (hd : dims.1 ≠ dims.2) (hex : exn.length = extras.length) (hn : names.length = data.length)
    (hrect : ((extras ++ data).all fun a => isRect a n.length e.length) = true) (hne : extras ≠ []) :
    Gen.makeXarrayGrid (.d1 e :: .d1 n :: extras.map .d2) (some data) (some names) dims (some exn) =
      .ok ⟨dims, e, n, exn.zip extras, names.zip data⟩ :=
  (gen_make_xarray_grid_eq_model _ _ _ _ _ _ _ hd).trans (make_grid_1d e n extras data names exn dims hex hn hrect hne)

end Verde.C18
