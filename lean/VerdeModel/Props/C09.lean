/-
  C09 — BlockReduce returns one correctly reduced value per non-empty block.
  `groupKeys`/`groupMembers` model pandas' group-by (ascending keys, member order preserved); labels come from
  `blockSplit` (C08).
-/
import VerdeModel.Gen.Blocks
import VerdeModel.Lemmas.Group
namespace Verde.C09
open Verde

/-- Exactly one entry per block that contains data, in ascending block order; empty blocks never appear. -/
theorem one_entry_per_occupied_block (bound : Nat) (labels : List Nat) (hb : ∀ l ∈ labels, l < bound) :
    (groupKeys bound labels).Pairwise (· < ·) ∧ ∀ b, b ∈ groupKeys bound labels ↔ b ∈ labels := by
  refine ⟨groupKeys_sorted bound labels, fun b => ?_⟩
  rw [groupKeys_mem]
  exact ⟨fun h => h.2, fun h => ⟨hb b h, h⟩⟩

/-- The bound used by the model covers every label. -/
theorem model_bound_covers (n : Nat) (labels : List Nat) : ∀ l ∈ labels, l < max n (labelBound labels) :=
  fun l hl => lt_of_lt_of_le (labelBound_gt labels l hl) (le_max_right _ _)

/-- The values reduced for block `b` are precisely the values of the points labelled `b`. -/
theorem members_are_exactly_the_blocks_points {α : Type} (labels : List Nat) (xs : List α) (b : Nat) (v : α) :
    v ∈ groupMembers labels xs b ↔ ∃ i : Nat, labels[i]? = some b ∧ xs[i]? = some v :=
  mem_groupMembers labels xs b v

theorem occupied_block_has_members {α : Type} (labels : List Nat) (xs : List α) (b : Nat)
    (hlen : xs.length = labels.length) (hb : b ∈ labels) : groupMembers labels xs b ≠ [] := by
  obtain ⟨i, hi, rfl⟩ := List.mem_iff_getElem.mp hb
  have hx : i < xs.length := by omega
  have : xs[i] ∈ groupMembers labels xs labels[i] :=
    (mem_groupMembers labels xs _ _).mpr ⟨i, List.getElem?_eq_getElem hi, List.getElem?_eq_getElem hx⟩
  intro h; rw [h] at this; simp at this

/-- With weights, the reduction of block `b` sees each value paired with its own weight. -/
theorem weights_aligned (labels : List Nat) (d w : List Rat) (b : Nat)
    (hd : d.length = labels.length) (hw : w.length = labels.length) :
    groupMembers labels (d.zip w) b = (groupMembers labels d b).zip (groupMembers labels w b) :=
  groupMembers_zip labels d w b hd hw

/-- For a sum reduction the outputs add up to the input total. -/
theorem sum_conserved (n : Nat) (labels : List Nat) (xs : List Rat) (hlen : xs.length = labels.length) :
    ((groupKeys (max n (labelBound labels)) labels).map fun b => Red.sum.apply (groupMembers labels xs b)).sum
      = xs.sum := by
  have hk := one_entry_per_occupied_block _ labels (model_bound_covers n labels)
  exact sum_groups_eq_sum _ labels xs (groupKeys_nodup _ _) (fun l hl => (hk.2 l).mpr hl) hlen

/-- Unweighted `BlockReduce.filter`: output entry for component `c`, position `pos` is the reduction of the members of the
    `pos`-th occupied block (same key list for every component and for the coordinates). -/
theorem reduce_unweighted_form (coords data : List (List Rat)) (b : BlockSpec) (r : ReduceSpec)
    (centres : List (Rat × Rat)) (labels : List Nat)
    (hs : blockSplit (coords.getD 0 []) (coords.getD 1 []) b = .ok (centres, labels)) :
    ∃ outCoords, blockReduce coords data none b r = .ok (outCoords,
      data.map fun d => (groupKeys (max centres.length (labelBound labels)) labels).map fun k =>
        r.fn (groupMembers labels d k)) := by
  unfold blockReduce
  simp only [hs, bind, Except.bind, pure, Except.pure]
  exact ⟨_, rfl⟩

/-- Weighted `BlockReduce.filter` (numpy.average): component `c` is reduced with weight component `c`. -/
theorem reduce_weighted_form (coords data ws : List (List Rat)) (b : BlockSpec) (centre drop : Bool)
    (centres : List (Rat × Rat)) (labels : List Nat)
    (hs : blockSplit (coords.getD 0 []) (coords.getD 1 []) b = .ok (centres, labels))
    (out : List (List Rat) × List (List Rat))
    (h : blockReduce coords data (some ws) b ⟨none, centre, drop⟩ = .ok out) :
    (data.zip ws).mapM (fun (p : List Rat × List Rat) =>
      (groupKeys (max centres.length (labelBound labels)) labels).mapM fun k =>
        wavg (groupMembers labels (p.1.zip p.2) k)) = .ok out.2 := by
  unfold blockReduce at h
  simp only [hs, bind, Except.bind, pure, Except.pure] at h
  split at h
  · cases h
  · rename_i v hv
    cases h
    exact hv

/-- With `center_coordinates` the coordinate reported for an occupied block is the centre of that very block. -/
theorem centre_of_same_block (coords data : List (List Rat)) (b : BlockSpec) (red : Option Red) (drop : Bool)
    (centres : List (Rat × Rat)) (labels : List Nat)
    (hs : blockSplit (coords.getD 0 []) (coords.getD 1 []) b = .ok (centres, labels))
    (out : List (List Rat) × List (List Rat))
    (h : blockReduce coords data none b ⟨red, true, drop⟩ = .ok out) (hc : 2 ≤ coords.length) :
    out.1[0]? = some ((groupKeys (max centres.length (labelBound labels)) labels).map fun k => (centres.getD k (0, 0)).1) ∧
    out.1[1]? = some ((groupKeys (max centres.length (labelBound labels)) labels).map fun k => (centres.getD k (0, 0)).2) := by
  unfold blockReduce at h
  simp only [hs, bind, Except.bind, pure, Except.pure, Except.ok.injEq] at h
  subst h
  have h2 : 2 ≤ (if drop = true then List.take 2 coords else coords).length := by
    split_ifs
    · simp; omega
    · exact hc
  constructor
  · rw [List.getElem?_mapIdx]
    have : (if drop = true then List.take 2 coords else coords)[0]? ≠ none := by
      rw [ne_eq, List.getElem?_eq_none_iff]; omega
    obtain ⟨c, hc'⟩ := Option.ne_none_iff_exists'.mp this
    simp [hc']
  · rw [List.getElem?_mapIdx]
    have : (if drop = true then List.take 2 coords else coords)[1]? ≠ none := by
      rw [ne_eq, List.getElem?_eq_none_iff]; omega
    obtain ⟨c, hc'⟩ := Option.ne_none_iff_exists'.mp this
    simp [hc']

/-! Non-vacuity -/
example : groupKeys 4 [3, 0, 3, 0, 0] = [0, 3] ∧ groupMembers [3, 0, 3, 0, 0] [(1 : Rat), 2, 3, 4, 5] 3 = [1, 3] := by
  decide +kernel
example : blockReduce [[1/2, 3/2, 5/2, 7/2], [1/2, 1/2, 3/2, 3/2]] [[1, 2, 3, 4]] none
    ⟨some [0, 4, 0, 2], none, some [1, 2], .spacing⟩ ⟨some .mean, false, true⟩
    = .ok ([[1, 3], [1/2, 3/2]], [[3/2, 7/2]]) := by decide +kernel

/-! ### Bridge: `BlockReduce.filter` (after `block_split`) regenerated from source -/

theorem mapIdx_map' {α β γ : Type} (l : List α) (g : α → β) (f : Nat → β → γ) :
    (l.map g).mapIdx f = l.mapIdx (fun i c => f i (g c)) := by
  apply List.ext_getElem? ; intro i; simp [List.getElem?_mapIdx]; rfl

theorem mapIdx_noindex {α β : Type} (l : List α) (g : α → β) : l.mapIdx (fun _ c => g c) = l.map g := by
  apply List.ext_getElem? ; intro i; simp [List.getElem?_mapIdx]

theorem gen_block_coordinates_eq_model (r : ReduceSpec) (coords : List (List Rat)) (centres : List (Rat × Rat)) (labels keys : List Nat) :
    Gen.blockCoordinates r coords centres labels keys =
      (if r.dropCoords then coords.take 2 else coords).mapIdx fun i c =>
        if r.centre && i < 2 then keys.map fun k => (if i = 0 then (centres.getD k (0, 0)).1 else (centres.getD k (0, 0)).2)
        else keys.map fun k => r.fn (groupMembers labels c k) := by
  unfold Gen.blockCoordinates
  simp only [groupAgg]
  by_cases hc : r.centre = true
  · simp only [hc, if_true, Bool.true_and, mapIdx_map', decide_eq_true_eq]
  · have : r.centre = false := by simpa using hc
    simp only [this, Bool.false_eq_true, if_false, Bool.false_and]
    exact (mapIdx_noindex _ _).symm

/-- **Bridge.**  `BlockReduce.filter` and `_block_coordinates` after `block_split` — the pinned translation regenerated on every run (withheld
    as soon as a statement of either method changes) — are the model's `blockReduce`: per occupied block in ascending order, the reduction of
    that block's members (component i with weight component i when weights are given; coordinates always unweighted; the first two coordinates
    replaced by the block's centre when `center_coordinates`; extra coordinates dropped when `drop_coords`). -/
theorem gen_block_reduce_eq_model (coords data : List (List Rat)) (weights : Option (List (List Rat))) (b : BlockSpec) (r : ReduceSpec) :
    blockReduce coords data weights b r = (do
      let (centres, labels) ← blockSplit (coords.getD 0 []) (coords.getD 1 []) b
      Gen.blockReduceFilter r centres labels coords data weights) := by
  unfold blockReduce Gen.blockReduceFilter
  simp only [bind, Except.bind]
  cases hs : blockSplit (coords.getD 0 []) (coords.getD 1 []) b with
  | error e => rfl
  | ok v =>
    obtain ⟨centres, labels⟩ := v
    simp only [gen_block_coordinates_eq_model]
    cases weights with
    | none => simp [pure, Except.pure, groupAgg]
    | some ws => simp [pure, Except.pure, groupAggW]

/-- **Sums are conserved — about the source as it is now:** with the sum as reduction and no weights, the values `BlockReduce.filter` (as
    regenerated from the source) returns for a data component add up to the total of that component, whatever the block layout. -/
theorem src_block_reduce_sum_conserved (centre drop : Bool) (blocks : List (Rat × Rat)) (labels : List Nat) (coords : List (List Rat))
    (comp : List Rat) (hlen : comp.length = labels.length) (outC : List (List Rat)) (outD : List (List Rat))
    (h : Gen.blockReduceFilter ⟨some .sum, centre, drop⟩ blocks labels coords [comp] none = .ok (outC, outD)) :
    (outD.getD 0 []).sum = comp.sum := by
  unfold Gen.blockReduceFilter at h
  simp only [bind, Except.bind, pure, Except.pure, List.map_cons, List.map_nil, Except.ok.injEq, Prod.mk.injEq] at h
  obtain ⟨_, rfl⟩ := h
  simp only [List.getD_cons_zero, groupAgg, ReduceSpec.fn]
  exact sum_conserved blocks.length labels comp hlen

end Verde.C09
