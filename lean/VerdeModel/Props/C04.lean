/-
  C04 — Gridding results do not depend on array layout, point order or dtype; linear gridders are linear in the data.
  Layout (C/Fortran order, strides, containers) and dtype are facts about numpy objects: the model receives the raveled
  element sequence, so those invariances are *observed* by the harness (metamorphic pairs on the real gridders).  What is
  provable is the mathematics they rest on: permutation invariance and linearity of the least-squares solution, and
  row-major raveling.  The integer-dtype clause was FALSE on the pinned tree (finding D5, repaired by a `fix:` commit).
-/
import VerdeModel.Lemmas.LinAlgBridge
import VerdeModel.Props.C02
import VerdeModel.Props.C03
import VerdeModel.Gen.Fit
import VerdeModel.Lemmas.TrendSum
import VerdeModel.Lemmas.Grid
import VerdeModel.Model.Blocks
import Mathlib.Logic.Equiv.Defs
namespace Verde.C04
open Verde Finset

/-- **Point order.**  Reordering the data points (rows of the Jacobian, with their data and weights) by any permutation `σ`
    does not change the normal equations: the same parameters solve them, hence predictions are unchanged. -/
theorem ls_perm_invariant {K : Type} [Field K] [LinearOrder K] [IsStrictOrderedRing K] {m n : ℕ}
    (J : Fin m → Fin n → K) (w d : Fin m → K) (α : K) (s p : Fin n → K) (σ : Equiv.Perm (Fin m)) :
    LS.normalEq (fun i => J (σ i)) (fun i => w (σ i)) (fun i => d (σ i)) α s p ↔ LS.normalEq J w d α s p := by
  unfold LS.normalEq
  have e : ∀ j, (∑ i, w (σ i) * J (σ i) j * ((∑ k, J (σ i) k * p k) - d (σ i))) =
      ∑ i, w i * J i j * ((∑ k, J i k * p k) - d i) := by
    intro j
    exact Equiv.sum_comp σ (fun i => w i * J i j * ((∑ k, J i k * p k) - d i))
  constructor
  · intro h j; rw [← e j]; exact h j
  · intro h j; rw [e j]; exact h j

/-- Reordering the parameters/forces (columns) consistently permutes the solution: predictions `J p` are unchanged. -/
theorem prediction_perm_columns {K : Type} [Field K] {n : ℕ} (r p : Fin n → K) (τ : Equiv.Perm (Fin n)) :
    (∑ k, r (τ k) * p (τ k)) = ∑ k, r k * p k := Equiv.sum_comp τ (fun k => r k * p k)

/-- **Linearity in the data** for every least-squares gridder (Spline, Trend, VectorSpline2D): if `p₁`, `p₂` fit `d₁`, `d₂`
    then `a p₁ + b p₂` fits `a d₁ + b d₂`; with a unique solution, `fit(a d₁ + b d₂) = a fit(d₁) + b fit(d₂)` at every
    query point. -/
theorem ls_linear_in_data {K : Type} [Field K] [LinearOrder K] [IsStrictOrderedRing K] {m n : ℕ}
    (J : Fin m → Fin n → K) (w d₁ d₂ : Fin m → K) (α a b : K) (s p₁ p₂ q : Fin n → K)
    (hinj : LS.Injective' J w α s)
    (h₁ : LS.normalEq J w d₁ α s p₁) (h₂ : LS.normalEq J w d₂ α s p₂)
    (hq : LS.normalEq J w (fun i => a * d₁ i + b * d₂ i) α s q) (r : Fin n → K) :
    (∑ k, r k * q k) = a * (∑ k, r k * p₁ k) + b * (∑ k, r k * p₂ k) := by
  have := LS.ls_unique J w _ α s q _ hinj hq (LS.normalEq_linear J w d₁ d₂ α a b s p₁ p₂ h₁ h₂)
  rw [this, Finset.mul_sum, Finset.mul_sum, ← Finset.sum_add_distrib]
  congr 1; ext k; ring

/-- KNeighbors with the mean reduction is linear in the data (the neighbour set depends on coordinates only). -/
theorem knn_mean_linear (idx : List Nat) (d₁ d₂ : List Rat) (a b : Rat) :
    mean (idx.map fun i => a * d₁.getD i 0 + b * d₂.getD i 0) =
      a * mean (idx.map fun i => d₁.getD i 0) + b * mean (idx.map fun i => d₂.getD i 0) := by
  unfold mean
  simp only [List.length_map]
  have : (idx.map fun i => a * d₁.getD i 0 + b * d₂.getD i 0).sum =
      a * (idx.map fun i => d₁.getD i 0).sum + b * (idx.map fun i => d₂.getD i 0).sum := by
    induction idx with
    | nil => simp
    | cons x xs ih => simp only [List.map_cons, List.sum_cons, ih]; ring
  rw [this]; ring

/-- Raveling is row-major and reshaping a raveled array does not change the element sequence: cell `(i, j)` of an
    `nr × nc` array is element `i·nc + j` (what `n_1d_arrays` hands to every gridder). -/
theorem ravel_row_major (a : Arr2) (nr nc : Nat) (h : isRect a nr nc = true) (i j : Nat) (hi : i < nr) (hj : j < nc) :
    (ravel2 a)[i * nc + j]? = (a[i]?.bind fun r => r[j]?) := by
  obtain ⟨hl, hr⟩ := isRect_spec a nr nc h
  exact flatten_uniform_getElem a nc hr i j (by omega) hj

/-- Ignored extra coordinates: the models of every gridder read only the first two coordinate arrays. -/
theorem extra_coords_ignored (es ns extra d : Vec) (w : Option Vec) (deg : Nat) :
    trendFit ([es, ns, extra].getD 0 []) ([es, ns, extra].getD 1 []) d w deg = trendFit es ns d w deg := rfl

/-- Finding D5 (repaired): truncating the design matrix to integers changes the fit — a concrete witness in the model. -/
theorem trend_int_truncation_counterexample :
    trendFit [1/2, 3/2, 9/4] [1/4, 2, 3/2] [3, 7, 1] none 0 = some [11/3] ∧
    (trendJac [1/2, 3/2, 9/4] [1/4, 2, 3/2] 1).map (fun r => r.map fun x => (x.floor : Rat)) ≠
      trendJac [1/2, 3/2, 9/4] [1/4, 2, 3/2] 1 := by
  constructor
  · decide +kernel
  · decide +kernel

/-! ## About the source as it is now (Gen/LeastSquares.lean, Gen/Fit.lean, Gen/Trend.lean) -/

/-- **Point order, about the regenerated `least_squares`:** reordering the rows of the Jacobian together with their data and weights by any
    permutation leaves the set of parameter vectors that satisfy the specification unchanged (the column scales are those of the same columns). -/
theorem src_least_squares_perm_invariant {K : Type} [Field K] [LinearOrder K] [IsStrictOrderedRing K] {m n : ℕ}
    (J : Fin m → Fin n → K) (d w : Fin m → K) (damping : Option K) (scale p : Fin n → K) (σ : Equiv.Perm (Fin m)) :
    Gen.leastSquaresSpec (fun i => J (σ i)) (fun i => d (σ i)) (fun i => w (σ i)) damping scale p ↔ Gen.leastSquaresSpec J d w damping scale p := by
  unfold Gen.leastSquaresSpec
  constructor
  · rintro ⟨c, h, hp⟩
    exact ⟨c, (ls_perm_invariant (fun i j => J i j / scale j) w d _ _ c σ).mp h, hp⟩
  · rintro ⟨c, h, hp⟩
    exact ⟨c, (ls_perm_invariant (fun i j => J i j / scale j) w d _ _ c σ).mpr h, hp⟩

/-- **Linearity in the data, about the regenerated `least_squares`:** if `p₁` is what it may return for `d₁` and `p₂` for `d₂`, then
    `a p₁ + b p₂` is what it may return for `a d₁ + b d₂` (same Jacobian, weights, damping and column scales). -/
theorem src_least_squares_linear_in_data {K : Type} [Field K] [LinearOrder K] [IsStrictOrderedRing K] {m n : ℕ}
    (J : Fin m → Fin n → K) (d₁ d₂ w : Fin m → K) (damping : Option K) (scale p₁ p₂ : Fin n → K) (a b : K)
    (h₁ : Gen.leastSquaresSpec J d₁ w damping scale p₁) (h₂ : Gen.leastSquaresSpec J d₂ w damping scale p₂) :
    Gen.leastSquaresSpec J (fun i => a * d₁ i + b * d₂ i) w damping scale (fun k => a * p₁ k + b * p₂ k) := by
  obtain ⟨c₁, hc₁, rfl⟩ := h₁
  obtain ⟨c₂, hc₂, rfl⟩ := h₂
  refine ⟨fun k => a * c₁ k + b * c₂ k, LS.normalEq_linear _ w d₁ d₂ _ a b _ c₁ c₂ hc₁ hc₂, ?_⟩
  funext j
  ring
/-- **`fit(a·d₁ + b·d₂) = a·fit(d₁) + b·fit(d₂)` about the regenerated `least_squares`, at every query row:** with non-zero column scales and
    an injective (damped) normal matrix the specification has one solution, so whatever it returns for the combined data predicts, at any row
    `r`, the same combination of what it returns for `d₁` and `d₂`. -/
theorem src_least_squares_fit_linear {K : Type} [Field K] [LinearOrder K] [IsStrictOrderedRing K] {m n : ℕ}
    (J : Fin m → Fin n → K) (d₁ d₂ w : Fin m → K) (damping : Option K) (scale p₁ p₂ q : Fin n → K) (a b : K)
    (hs : ∀ j, scale j ≠ 0) (hinj : LS.Injective' J w (damping.getD 0) (fun j => scale j ^ 2))
    (h₁ : Gen.leastSquaresSpec J d₁ w damping scale p₁) (h₂ : Gen.leastSquaresSpec J d₂ w damping scale p₂)
    (hq : Gen.leastSquaresSpec J (fun i => a * d₁ i + b * d₂ i) w damping scale q) (r : Fin n → K) :
    (∑ k, r k * q k) = a * (∑ k, r k * p₁ k) + b * (∑ k, r k * p₂ k) :=
  ls_linear_in_data J w d₁ d₂ _ a b _ p₁ p₂ q hinj
    (C02.gen_least_squares_spec_solves_model J d₁ w damping scale p₁ hs h₁)
    (C02.gen_least_squares_spec_solves_model J d₂ w damping scale p₂ hs h₂)
    (C02.gen_least_squares_spec_solves_model J _ w damping scale q hs hq) r

theorem vecOf_lin (d₁ d₂ : List Rat) (a b : Rat) (m : Nat) (hl : d₁.length = d₂.length) :
    Gen.vecOf (List.zipWith (fun x y => a * x + b * y) d₁ d₂) m = fun i => a * Gen.vecOf d₁ m i + b * Gen.vecOf d₂ m i := by
  funext i
  simp only [Gen.vecOf, List.getD_eq_getElem?_getD, List.getElem?_zipWith]
  by_cases h : i.val < d₁.length
  · have h2 : i.val < d₂.length := by omega
    simp [List.getElem?_eq_getElem h, List.getElem?_eq_getElem h2]
  · have h2 : ¬ i.val < d₂.length := by omega
    simp [List.getElem?_eq_none (Nat.le_of_not_lt h), List.getElem?_eq_none (Nat.le_of_not_lt h2)]

/-- **The whole Trend pipeline is linear in the data — about the source as it is now.**  `coef₁`, `coef₂`, `coef` are what the regenerated
    `Trend.fit` (through the regenerated `jacobian` and `least_squares`) leaves in `coef_` for the data `d₁`, `d₂` and `a·d₁ + b·d₂` on the same
    points and weights; if the (weighted) monomial matrix is injective, the regenerated `Trend.predict` satisfies
    `predict(a·d₁ + b·d₂) = a·predict(d₁) + b·predict(d₂)` at EVERY location. -/
theorem src_trend_linear_in_data (degree : Nat) (es ns d₁ d₂ c₁ c₂ c : List Rat) (w : Option (List Rat)) (a b : Rat)
    (scale : Fin (powerCombinations degree).length → Rat) (hs : ∀ j, scale j ≠ 0) (hl : d₁.length = d₂.length)
    (hinj : LS.Injective' (Gen.matOf (Gen.trendJacobian es ns (powerCombinations degree)) (powerCombinations degree).length)
      (Gen.weightsOf w _) 0 (fun j => scale j ^ 2))
    (h₁ : Gen.trendFitSpec degree [es, ns] d₁ w scale c₁) (h₂ : Gen.trendFitSpec degree [es, ns] d₂ w scale c₂)
    (hq : Gen.trendFitSpec degree [es, ns] (List.zipWith (fun x y => a * x + b * y) d₁ d₂) w scale c) (e n : Rat) :
    Gen.trendPredict c (powerCombinations degree) [e] [n]
      = List.zipWith (fun x y => a * x + b * y) (Gen.trendPredict c₁ (powerCombinations degree) [e] [n]) (Gen.trendPredict c₂ (powerCombinations degree) [e] [n]) := by
  have h₁' : Gen.leastSquaresSpec (Gen.matOf (Gen.trendJacobian es ns (powerCombinations degree)) (powerCombinations degree).length)
      (Gen.vecOf d₁ _) (Gen.weightsOf w _) none scale (Gen.vecOf c₁ _) := h₁
  have h₂' : Gen.leastSquaresSpec (Gen.matOf (Gen.trendJacobian es ns (powerCombinations degree)) (powerCombinations degree).length)
      (Gen.vecOf d₂ _) (Gen.weightsOf w _) none scale (Gen.vecOf c₂ _) := h₂
  have hq' : Gen.leastSquaresSpec (Gen.matOf (Gen.trendJacobian es ns (powerCombinations degree)) (powerCombinations degree).length)
      (Gen.vecOf (List.zipWith (fun x y => a * x + b * y) d₁ d₂) _) (Gen.weightsOf w _) none scale (Gen.vecOf c _) := hq
  rw [vecOf_lin d₁ d₂ a b _ hl] at hq'
  have key := src_least_squares_fit_linear _ _ _ _ none scale _ _ _ a b hs hinj h₁' h₂' hq'
    (fun k => e ^ ((powerCombinations degree)[k]).1 * n ^ ((powerCombinations degree)[k]).2)
  rw [C03.gen_trend_predict_eq_model, C03.gen_trend_predict_eq_model, C03.gen_trend_predict_eq_model]
  simp only [List.zipWith_cons_cons, List.zipWith_nil_right, C01.trendPredict_eq_finsum]
  simp only [Gen.vecOf] at key
  rw [key]

section SplinePipeline
open PReal

theorem vecOf_lin_real (d₁ d₂ : List ℝ) (a b : ℝ) (m : Nat) (hl : d₁.length = d₂.length) :
    Gen.vecOf (List.zipWith (fun x y => a * x + b * y) d₁ d₂) m = fun i => a * Gen.vecOf d₁ m i + b * Gen.vecOf d₂ m i := by
  funext i
  simp only [Gen.vecOf, List.getD_eq_getElem?_getD, List.getElem?_zipWith]
  by_cases h : i.val < d₁.length
  · have h2 : i.val < d₂.length := by omega
    simp [List.getElem?_eq_getElem h, List.getElem?_eq_getElem h2]
  · have h2 : ¬ i.val < d₂.length := by omega
    simp [List.getElem?_eq_none (Nat.le_of_not_lt h), List.getElem?_eq_none (Nat.le_of_not_lt h2)]

/-- **The whole Spline pipeline is linear in the data — about the source as it is now.**  `f₁`, `f₂`, `f` are what the regenerated `Spline.fit`
    leaves in `force_` for the data `d₁`, `d₂` and `a·d₁ + b·d₂` (same coordinates, weights, damping, force positions, hence the same Jacobian
    `J` of the regenerated `jacobian_numpy`); if the damped normal matrix is injective, the regenerated `Spline.predict` (over the regenerated
    `predict_numpy` and kernel) satisfies `predict(a·d₁ + b·d₂) = a·predict(d₁) + b·predict(d₂)` at every location whose kernel row is
    defined (`row`: the kernel between the query and each force). -/
theorem src_spline_linear_in_data (mindist : ℝ) (damping : Option ℝ) (sfc : Option (List (List ℝ))) (coords : List (List ℝ))
    (d₁ d₂ f₁ f₂ f : List ℝ) (w : Option (List ℝ)) (a b : ℝ) (fe fn : List ℝ) (J : List (List ℝ)) (n : Nat) (scale : Fin n → ℝ)
    (hs : ∀ j, scale j ≠ 0) (hl : d₁.length = d₂.length)
    (hinj : LS.Injective' (Gen.matOf J n) (Gen.weightsOf w J.length) (damping.getD 0) (fun j => scale j ^ 2))
    (h₁ : Gen.splineFitSpec mindist damping sfc coords d₁ w [fe, fn] J n scale f₁)
    (h₂ : Gen.splineFitSpec mindist damping sfc coords d₂ w [fe, fn] J n scale f₂)
    (hq : Gen.splineFitSpec mindist damping sfc coords (List.zipWith (fun x y => a * x + b * y) d₁ d₂) w [fe, fn] J n scale f)
    (hfe : fe.length = n) (hfn : fn.length = n) (hf₁ : f₁.length = n) (hf₂ : f₂.length = n) (hf : f.length = n)
    (e nq : ℝ) (row : List ℝ)
    (hrow : ((fe.map fin).zip (fn.map fin)).map (fun p => greens (fin e - p.1) (fin nq - p.2) (fin mindist)) = row.map fin) :
    ∃ x₁ x₂ : ℝ,
      Gen.splinePredict [fe.map fin, fn.map fin] (fin mindist) (f₁.map fin) [[fin e], [fin nq]] = [fin x₁] ∧
      Gen.splinePredict [fe.map fin, fn.map fin] (fin mindist) (f₂.map fin) [[fin e], [fin nq]] = [fin x₂] ∧
      Gen.splinePredict [fe.map fin, fn.map fin] (fin mindist) (f.map fin) [[fin e], [fin nq]] = [fin (a * x₁ + b * x₂)] := by
  obtain ⟨_, _, hls₁⟩ := h₁
  obtain ⟨_, _, hls₂⟩ := h₂
  obtain ⟨_, _, hlsq⟩ := hq
  rw [vecOf_lin_real d₁ d₂ a b _ hl] at hlsq
  have hrl : row.length = n := by
    have := congrArg List.length hrow
    simp only [List.length_map, List.length_zip, hfe, hfn, Nat.min_self] at this
    exact this.symm
  have key := src_least_squares_fit_linear _ _ _ _ damping scale _ _ _ a b hs hinj hls₁ hls₂ hlsq (fun k => row.getD k 0)
  have pred : ∀ g : List ℝ, g.length = n →
      Gen.splinePredict [fe.map fin, fn.map fin] (fin mindist) (g.map fin) [[fin e], [fin nq]] = [fin (∑ k : Fin n, row.getD k 0 * g.getD k 0)] := by
    intro g hg
    rw [C03.gen_spline_predict_eq_model _ _ _ _ _ [] [] _ (by simp [hfe, hg]) (by simp [hfn, hg]), C03.spline_predict_eq_jac_mul]
    simp only [splineJac, List.map_cons, List.map_nil]
    rw [hrow, C03.zipWith_mul_fin, C03.psum_map_fin, C03.sum_zipWith_eq_finsum _ _ n hrl hg]
  refine ⟨_, _, pred f₁ hf₁, pred f₂ hf₂, ?_⟩
  rw [pred f hf]
  simp only [Gen.vecOf] at key
  rw [key]

theorem spline_predict_cons (fc : List (List PReal)) (md : PReal) (forces : List PReal) (a b : PReal) (as bs : List PReal) :
    Gen.splinePredict fc md forces [a :: as, b :: bs]
      = Gen.splinePredict fc md forces [[a], [b]] ++ Gen.splinePredict fc md forces [as, bs] := by
  unfold Gen.splinePredict
  simp only [List.getD_cons_zero, List.getD_cons_succ]
  exact C03.src_predict_numpy_append [a] as [b] bs _ _ md forces rfl

/-- **The whole Spline pipeline is linear in the data at query arrays of every length — about the source as it is now.**  Under the hypotheses of
    `src_spline_linear_in_data`, for ANY list of query points whose kernel rows are defined, the regenerated `Spline.predict` called with the whole
    arrays satisfies `predict(a·d₁ + b·d₂) = a·predict(d₁) + b·predict(d₂)` entry by entry (the single-location theorem lifted through the append
    law of the regenerated `predict_numpy`). -/
theorem src_spline_linear_in_data_all (mindist : ℝ) (damping : Option ℝ) (sfc : Option (List (List ℝ))) (coords : List (List ℝ))
    (d₁ d₂ f₁ f₂ f : List ℝ) (w : Option (List ℝ)) (a b : ℝ) (fe fn : List ℝ) (J : List (List ℝ)) (n : Nat) (scale : Fin n → ℝ)
    (hs : ∀ j, scale j ≠ 0) (hl : d₁.length = d₂.length)
    (hinj : LS.Injective' (Gen.matOf J n) (Gen.weightsOf w J.length) (damping.getD 0) (fun j => scale j ^ 2))
    (h₁ : Gen.splineFitSpec mindist damping sfc coords d₁ w [fe, fn] J n scale f₁)
    (h₂ : Gen.splineFitSpec mindist damping sfc coords d₂ w [fe, fn] J n scale f₂)
    (hq : Gen.splineFitSpec mindist damping sfc coords (List.zipWith (fun x y => a * x + b * y) d₁ d₂) w [fe, fn] J n scale f)
    (hfe : fe.length = n) (hfn : fn.length = n) (hf₁ : f₁.length = n) (hf₂ : f₂.length = n) (hf : f.length = n)
    (pts : List (ℝ × ℝ))
    (hrows : ∀ p ∈ pts, ∃ row : List ℝ,
      ((fe.map fin).zip (fn.map fin)).map (fun q => greens (fin p.1 - q.1) (fin p.2 - q.2) (fin mindist)) = row.map fin) :
    ∃ xs₁ xs₂ : List ℝ, xs₁.length = pts.length ∧ xs₂.length = pts.length ∧
      Gen.splinePredict [fe.map fin, fn.map fin] (fin mindist) (f₁.map fin) [pts.map (fun p => fin p.1), pts.map (fun p => fin p.2)] = xs₁.map fin ∧
      Gen.splinePredict [fe.map fin, fn.map fin] (fin mindist) (f₂.map fin) [pts.map (fun p => fin p.1), pts.map (fun p => fin p.2)] = xs₂.map fin ∧
      Gen.splinePredict [fe.map fin, fn.map fin] (fin mindist) (f.map fin) [pts.map (fun p => fin p.1), pts.map (fun p => fin p.2)]
        = (List.zipWith (fun x y => a * x + b * y) xs₁ xs₂).map fin := by
  induction pts with
  | nil =>
    refine ⟨[], [], rfl, rfl, ?_, ?_, ?_⟩ <;>
      · unfold Gen.splinePredict
        simp only [List.getD_cons_zero, List.getD_cons_succ, List.map_nil, List.zipWith_nil_left]
        exact C03.predict_numpy_nil _ _ _ _
  | cons p ps ih =>
    obtain ⟨row, hrow⟩ := hrows p (List.mem_cons_self)
    obtain ⟨x₁, x₂, e₁, e₂, e₃⟩ := src_spline_linear_in_data mindist damping sfc coords d₁ d₂ f₁ f₂ f w a b fe fn J n scale hs hl hinj h₁ h₂ hq
      hfe hfn hf₁ hf₂ hf p.1 p.2 row hrow
    obtain ⟨xs₁, xs₂, l₁, l₂, i₁, i₂, i₃⟩ := ih (fun q hq' => hrows q (List.mem_cons_of_mem _ hq'))
    refine ⟨x₁ :: xs₁, x₂ :: xs₂, by simp [l₁], by simp [l₂], ?_, ?_, ?_⟩
    · simp only [List.map_cons]; rw [spline_predict_cons, e₁, i₁]; rfl
    · simp only [List.map_cons]; rw [spline_predict_cons, e₂, i₂]; rfl
    · simp only [List.map_cons, List.zipWith_cons_cons]; rw [spline_predict_cons, e₃, i₃]; rfl

end SplinePipeline

end Verde.C04
