/-
  C04 — Gridding results do not depend on array layout, point order or dtype; linear gridders are linear in the data.
  Layout (C/Fortran order, strides, containers) and dtype are facts about numpy objects: the model receives the raveled
  element sequence, so those invariances are *observed* by the harness (metamorphic pairs on the real gridders).  What is
  provable is the mathematics they rest on: permutation invariance and linearity of the least-squares solution, and
  row-major raveling.  The integer-dtype clause was FALSE on the pinned tree (finding D5, repaired by a `fix:` commit).
-/
import VerdeModel.Lemmas.LinAlgBridge
import VerdeModel.Lemmas.Grid
import VerdeModel.Model.Blocks
import Mathlib.Logic.Equiv.Defs
namespace Verde.C04
open Verde Finset

/-- **Point order.**  Reordering the data points (rows of the Jacobian, with their data and weights) by any permutation `σ`
    does not change the normal equations: the same parameters solve them, hence predictions are unchanged. -/
theorem ls_perm_invariant {K : Type} [Field K] [LinearOrder K] [IsStrictOrderedRing K] {m n : ℕ}
    (J : Fin m → Fin n → K) (w d : Fin m → K) (α : K) (s p : Fin n → K) (σ : Equiv.Perm (Fin m)) :
    LS.normalEq (fun i => J (σ i)) (fun i => w (σ i)) (fun i => d (σ i)) α s p ↔ LS.normalEq J w d α s p := by
  unfold LS.normalEq
  have e : ∀ j, (∑ i, w (σ i) * J (σ i) j * ((∑ k, J (σ i) k * p k) - d (σ i))) =
      ∑ i, w i * J i j * ((∑ k, J i k * p k) - d i) := by
    intro j
    exact Equiv.sum_comp σ (fun i => w i * J i j * ((∑ k, J i k * p k) - d i))
  constructor
  · intro h j; rw [← e j]; exact h j
  · intro h j; rw [e j]; exact h j

/-- Reordering the parameters/forces (columns) consistently permutes the solution: predictions `J p` are unchanged. -/
theorem prediction_perm_columns {K : Type} [Field K] {n : ℕ} (r p : Fin n → K) (τ : Equiv.Perm (Fin n)) :
    (∑ k, r (τ k) * p (τ k)) = ∑ k, r k * p k := Equiv.sum_comp τ (fun k => r k * p k)

/-- **Linearity in the data** for every least-squares gridder (Spline, Trend, VectorSpline2D): if `p₁`, `p₂` fit `d₁`, `d₂`
    then `a p₁ + b p₂` fits `a d₁ + b d₂`; with a unique solution, `fit(a d₁ + b d₂) = a fit(d₁) + b fit(d₂)` at every
    query point. -/
theorem ls_linear_in_data {K : Type} [Field K] [LinearOrder K] [IsStrictOrderedRing K] {m n : ℕ}
    (J : Fin m → Fin n → K) (w d₁ d₂ : Fin m → K) (α a b : K) (s p₁ p₂ q : Fin n → K)
    (hinj : LS.Injective' J w α s)
    (h₁ : LS.normalEq J w d₁ α s p₁) (h₂ : LS.normalEq J w d₂ α s p₂)
    (hq : LS.normalEq J w (fun i => a * d₁ i + b * d₂ i) α s q) (r : Fin n → K) :
    (∑ k, r k * q k) = a * (∑ k, r k * p₁ k) + b * (∑ k, r k * p₂ k) := by
  have := LS.ls_unique J w _ α s q _ hinj hq (LS.normalEq_linear J w d₁ d₂ α a b s p₁ p₂ h₁ h₂)
  rw [this, Finset.mul_sum, Finset.mul_sum, ← Finset.sum_add_distrib]
  congr 1; ext k; ring

/-- KNeighbors with the mean reduction is linear in the data (the neighbour set depends on coordinates only). -/
theorem knn_mean_linear (idx : List Nat) (d₁ d₂ : List Rat) (a b : Rat) :
    mean (idx.map fun i => a * d₁.getD i 0 + b * d₂.getD i 0) =
      a * mean (idx.map fun i => d₁.getD i 0) + b * mean (idx.map fun i => d₂.getD i 0) := by
  unfold mean
  simp only [List.length_map]
  have : (idx.map fun i => a * d₁.getD i 0 + b * d₂.getD i 0).sum =
      a * (idx.map fun i => d₁.getD i 0).sum + b * (idx.map fun i => d₂.getD i 0).sum := by
    induction idx with
    | nil => simp
    | cons x xs ih => simp only [List.map_cons, List.sum_cons, ih]; ring
  rw [this]; ring

/-- Raveling is row-major and reshaping a raveled array does not change the element sequence: cell `(i, j)` of an
    `nr × nc` array is element `i·nc + j` (what `n_1d_arrays` hands to every gridder). -/
theorem ravel_row_major (a : Arr2) (nr nc : Nat) (h : isRect a nr nc = true) (i j : Nat) (hi : i < nr) (hj : j < nc) :
    (ravel2 a)[i * nc + j]? = (a[i]?.bind fun r => r[j]?) := by
  obtain ⟨hl, hr⟩ := isRect_spec a nr nc h
  exact flatten_uniform_getElem a nc hr i j (by omega) hj

/-- Ignored extra coordinates: the models of every gridder read only the first two coordinate arrays. -/
theorem extra_coords_ignored (es ns extra d : Vec) (w : Option Vec) (deg : Nat) :
    trendFit ([es, ns, extra].getD 0 []) ([es, ns, extra].getD 1 []) d w deg = trendFit es ns d w deg := rfl

/-- Finding D5 (repaired): truncating the design matrix to integers changes the fit — a concrete witness in the model. -/
theorem trend_int_truncation_counterexample :
    trendFit [1/2, 3/2, 9/4] [1/4, 2, 3/2] [3, 7, 1] none 0 = some [11/3] ∧
    (trendJac [1/2, 3/2, 9/4] [1/4, 2, 3/2] 1).map (fun r => r.map fun x => (x.floor : Rat)) ≠
      trendJac [1/2, 3/2, 9/4] [1/4, 2, 3/2] 1 := by
  constructor
  · decide +kernel
  · decide +kernel

end Verde.C04
