/-
  C11 — Blocked cross-validators never split a block and partition the data.
  Labels come from `blockSplit` (C08).  The shuffled block order (RandomState.shuffle) and the ShuffleSplit
  candidates are inputs of the model; the theorems hold for every order / candidate list.
-/
import VerdeModel.Gen.CVSplit
import VerdeModel.Lemmas.CV
import VerdeModel.Lemmas.Balance
import VerdeModel.Gen.Utils
namespace Verde.C11
open Verde

/-- Every split is a partition of the sample indices: train is exactly the complement of test. -/
theorem split_is_partition (n : Nat) (test : List Nat) (i : Nat) (hi : i < n) :
    (i ∈ complement n test ∨ i ∈ test) ∧ ¬ (i ∈ complement n test ∧ i ∈ test) ∧
    (∀ k ∈ complement n test, k < n) := by
  refine ⟨?_, ?_, fun k hk => ((mem_complement n test k).mp hk).1⟩
  · by_cases h : i ∈ test
    · exact Or.inr h
    · exact Or.inl ((mem_complement n test i).mpr ⟨hi, h⟩)
  · rintro ⟨h1, h2⟩
    exact ((mem_complement n test i).mp h1).2 h2

/-- **No block is split.**  Two samples of the same block are on the same side of every split
    (test sets are unions of whole blocks; train is the complement). -/
theorem block_never_split (labels ids : List Nat) (i j : Nat) (hi : i < labels.length) (hj : j < labels.length)
    (hsame : labels.getD i 0 = labels.getD j 0) :
    (i ∈ pointsOfBlocks labels ids ↔ j ∈ pointsOfBlocks labels ids) ∧
    (i ∈ complement labels.length (pointsOfBlocks labels ids) ↔
      j ∈ complement labels.length (pointsOfBlocks labels ids)) := by
  have h1 : i ∈ pointsOfBlocks labels ids ↔ j ∈ pointsOfBlocks labels ids := by
    rw [mem_pointsOfBlocks, mem_pointsOfBlocks, hsame]
    exact ⟨fun h => ⟨hj, h.2⟩, fun h => ⟨hi, h.2⟩⟩
  refine ⟨h1, ?_⟩
  rw [mem_complement, mem_complement, h1]
  exact ⟨fun h => ⟨hj, h.2⟩, fun h => ⟨hi, h.2⟩⟩

/-- Test indices are valid sample indices in ascending order. -/
theorem test_points_valid (labels ids : List Nat) :
    (∀ i ∈ pointsOfBlocks labels ids, i < labels.length) ∧ (pointsOfBlocks labels ids).Pairwise (· < ·) := by
  refine ⟨fun i hi => ((mem_pointsOfBlocks labels ids i).mp hi).1, ?_⟩
  unfold pointsOfBlocks; exact List.Pairwise.filter _ List.pairwise_lt_range

/-- `numpy.split` on sorted cut points gives `len(points) + 1` consecutive folds and every block position lies in
    exactly one of them. -/
theorem fold_ranges_partition (n : Nat) (points : List Nat) (hs : ((0 : Nat) :: points).Pairwise (· ≤ ·))
    (j : Nat) (hj : j < n) :
    (splitRanges n points).length = points.length + 1 ∧
    (splitRanges n points).countP (fun r => r.contains j) = 1 := by
  constructor
  · simp [splitRanges, cutIntervals_length]
  · unfold splitRanges
    rw [List.countP_map]
    have := cutIntervals_exactly_one 0 points n hs j (Nat.zero_le _) hj
    rw [← List.countP_eq_length_filter] at this
    rw [← this]
    apply List.countP_congr
    intro q _
    simp only [Function.comp, List.contains_iff_mem, List.mem_filter, List.mem_range, Bool.and_eq_true,
      decide_eq_true_eq]
    constructor
    · intro h; exact h.2
    · intro h; exact ⟨hj, h⟩

/-- With strictly increasing cut points strictly inside `(0, n)` every fold is non-empty. -/
theorem folds_nonempty (a n : Nat) (points : List Nat)
    (hs : (a :: (points ++ [n])).Pairwise (· < ·)) :
    ∀ q ∈ cutIntervals a points n, q.1 < q.2 ∧ q.2 ≤ n := by
  induction points generalizing a with
  | nil =>
    intro q hq
    simp only [cutIntervals, List.mem_singleton] at hq
    subst hq
    simp only [List.nil_append, List.pairwise_cons, List.mem_singleton, forall_eq] at hs
    exact ⟨hs.1, le_refl _⟩
  | cons p ps ih =>
    intro q hq
    simp only [cutIntervals, List.mem_cons] at hq
    have hs' := List.pairwise_cons.mp hs
    rcases hq with rfl | hq
    · refine ⟨hs'.1 p (by simp), ?_⟩
      have : p < n ∨ p = n := by
        have hp := (List.pairwise_cons.mp hs'.2).1 n (by simp)
        exact Or.inl hp
      omega
    · exact ih p hs'.2 q hq

theorem fold_range_nonempty (n lo hi : Nat) (h : lo < hi) (hn : hi ≤ n) :
    ((List.range n).filter fun i => decide (lo ≤ i) && decide (i < hi)) ≠ [] := by
  intro hnil
  have : lo ∈ (List.range n).filter fun i => decide (lo ≤ i) && decide (i < hi) := by
    simp only [List.mem_filter, List.mem_range, Bool.and_eq_true, decide_eq_true_eq]
    exact ⟨by omega, le_refl _, h⟩
  rw [hnil] at this; simp at this

/-- `partition_by_sum`: an accepted result has `parts − 1` distinct, non-decreasing split points, the first one
    is not 0, and none exceeds the number of blocks. -/
theorem partition_by_sum_spec (sizes : List Nat) (parts : Nat) (idx : List Nat)
    (h : partitionBySum sizes parts = .ok idx) :
    idx.length = parts - 1 ∧ idx.Nodup ∧ idx.Pairwise (· ≤ ·) ∧ idx.head? ≠ some 0 ∧
    (∀ p ∈ idx, p ≤ sizes.length) ∧ parts ≤ sizes.length := by
  unfold partitionBySum at h
  split_ifs at h with h1
  simp only [] at h
  split_ifs at h with h2
  simp only [Except.ok.injEq] at h
  subst h
  simp only [Bool.or_eq_true, Bool.not_eq_true', decide_eq_false_iff_not, not_or, Decidable.not_not,
    beq_iff_eq] at h2
  refine ⟨by simp, h2.1, ?_, h2.2, ?_, by omega⟩
  · rw [List.pairwise_map]
    apply List.Pairwise.imp _ List.pairwise_lt_range
    intro a b hab
    apply countLe_mono
    exact Nat.mul_le_mul_right _ (by omega)
  · intro p hp
    simp only [List.mem_map] at hp
    obtain ⟨k, _, rfl⟩ := hp
    have := countLe_le_length (cumsum sizes) ((k + 1) * ((cumsum sizes).getLastD 0 / parts))
    rw [cumsum_length] at this
    exact this

/-- **Balance bound.**  In the balanced path, consecutive split points `i ≤ i'` found for the targets `(k−1)·ideal` and
    `k·ideal` (neither at the very end) delimit a fold whose point count is within one block population `M` of `ideal`:
    `ideal − M < fold < ideal + M`  (stated additively over ℕ). -/
theorem balance_bound (sizes : List Nat) (M ideal k : Nat) (hM : ∀ s ∈ sizes, s ≤ M)
    (hi : countLe (cumsum sizes) (k * ideal) < sizes.length) (hi' : countLe (cumsum sizes) ((k + 1) * ideal) < sizes.length) :
    let lo := prefixSum sizes (countLe (cumsum sizes) (k * ideal))
    let hi := prefixSum sizes (countLe (cumsum sizes) ((k + 1) * ideal))
    lo ≤ hi ∧ hi - lo < ideal + M ∧ ideal < (hi - lo) + M := by
  intro lo hi2
  obtain ⟨a1, a2⟩ := split_point_bound sizes M (k * ideal) hM
  obtain ⟨b1, b2⟩ := split_point_bound sizes M ((k + 1) * ideal) hM
  have a2' := a2 hi
  have b2' := b2 hi'
  have hmono : lo ≤ hi2 := prefixSum_mono sizes _ _ (countLe_mono _ _ _ (Nat.mul_le_mul_right _ (by omega)))
  have e : (k + 1) * ideal = k * ideal + ideal := by ring
  simp only [lo, hi2] at *
  refine ⟨hmono, ?_, ?_⟩ <;> omega

/-- The first fold (from the start to the first split point) obeys the same bound. -/
theorem balance_bound_first (sizes : List Nat) (M ideal : Nat) (hM : ∀ s ∈ sizes, s ≤ M)
    (hi : countLe (cumsum sizes) ideal < sizes.length) :
    prefixSum sizes (countLe (cumsum sizes) ideal) ≤ ideal ∧ ideal < prefixSum sizes (countLe (cumsum sizes) ideal) + M :=
  ⟨(split_point_bound sizes M ideal hM).1, (split_point_bound sizes M ideal hM).2 hi⟩

/-- Fallback / unbalanced folds (scikit-learn KFold over blocks): `k` folds whose block counts differ by at most one
    and add up to the number of blocks. -/
theorem kfold_sizes_balanced (n k : Nat) (hk : 0 < k) :
    (kfoldSizes n k).length = k ∧ (∀ s ∈ kfoldSizes n k, s = n / k ∨ s = n / k + 1) ∧
    (kfoldSizes n k).sum = n := by
  refine ⟨by simp [kfoldSizes], ?_, ?_⟩
  · intro s hs
    simp only [kfoldSizes, List.mem_map] at hs
    obtain ⟨f, _, rfl⟩ := hs
    split_ifs <;> simp
  · have hmod : n % k ≤ k := (Nat.mod_lt n hk).le
    have key : ∀ m r : Nat, r ≤ m →
        ((List.range m).map fun f => if f < r then n / k + 1 else n / k).sum = m * (n / k) + r := by
      intro m
      induction m with
      | zero => intro r hr; simp at hr; simp [hr]
      | succ m ih =>
        intro r hr
        rw [List.range_succ, List.map_append, List.sum_append]
        by_cases hrm : r ≤ m
        · rw [ih r hrm]
          have : ¬ m < r := by omega
          simp [this]; ring
        · have hr' : r = m + 1 := by omega
          have hall : ((List.range m).map fun f => if f < r then n / k + 1 else n / k) =
              (List.range m).map fun f => if f < m then n / k + 1 else n / k := by
            apply List.map_congr_left
            intro f hf
            have := List.mem_range.mp hf
            have h1 : f < r := by omega
            simp [h1, this]
          rw [hall, ih m (le_refl _)]
          have : m < r := by omega
          simp [this, hr']; ring
    unfold kfoldSizes
    rw [key k (n % k) hmod]
    exact Nat.div_add_mod n k

/-- If every block position lies in exactly one fold, every sample lies in exactly one test set. -/
theorem samples_covered_once (labels ids : List Nat) (folds : List (List Nat)) (hnd : ids.Nodup)
    (hall : ∀ l ∈ labels, l ∈ ids) (hfold : ∀ f ∈ folds, ∀ j ∈ f, j < ids.length)
    (hone : ∀ j, j < ids.length → folds.countP (fun f => f.contains j) = 1)
    (i : Nat) (hi : i < labels.length) :
    (folds.map fun f => pointsOfBlocks labels (f.map fun j => ids.getD j 0)).countP (fun t => t.contains i) = 1 := by
  have hl : labels.getD i 0 ∈ ids := by
    apply hall
    rw [List.getD_eq_getElem?_getD, List.getElem?_eq_getElem hi]
    exact List.getElem_mem hi
  obtain ⟨j, hj, hjl⟩ := List.mem_iff_getElem.mp hl
  rw [List.countP_map, ← hone j hj]
  apply List.countP_congr
  intro f hf
  simp only [Function.comp, List.contains_iff_mem, mem_pointsOfBlocks, List.mem_map]
  constructor
  · rintro ⟨_, j', hj', hjj'⟩
    have hj'lt := hfold f hf j' hj'
    have : ids[j'] = ids[j] := by
      rw [List.getD_eq_getElem?_getD, List.getElem?_eq_getElem hj'lt] at hjj'
      simpa [hjl] using hjj'
    have := (List.Nodup.getElem_inj_iff hnd).mp this
    subst this; exact hj'
  · intro hjf
    refine ⟨hi, j, hjf, ?_⟩
    rw [List.getD_eq_getElem?_getD, List.getElem?_eq_getElem hj]
    simpa using hjl

/-- `BlockShuffleSplit` yields, per group of `balancing` candidates, the first candidate with the smallest imbalance. -/
theorem shuffle_selected_is_best (metrics : List Rat) (hne : metrics ≠ []) :
    ∃ h : argminIdx metrics < metrics.length, ∀ k (hk : k < metrics.length), metrics[argminIdx metrics] ≤ metrics[k] :=
  argminIdx_spec metrics hne

/-- Rejections. -/
theorem n_splits_lt_2_rejected (labels : List Nat) (s : KFoldSpec) (h : s.nSplits < 2) :
    blockKFoldTests labels s = .error .valueError := by
  simp [blockKFoldTests, h, bind, Except.bind]

theorem too_many_splits_rejected (labels : List Nat) (s : KFoldSpec)
    (h : (groupKeys (labelBound labels) labels).length < s.nSplits) :
    blockKFoldTests labels s = .error .valueError := by
  unfold blockKFoldTests
  simp only [bind, Except.bind]
  split_ifs <;> simp_all

theorem balancing_lt_1_rejected (labels : List Nat) (n b : Nat) (c : List (List Nat × List Nat)) (h : b < 1) :
    blockShuffleTests labels n b c = .error .valueError := by
  simp [blockShuffleTests, h, bind, Except.bind]

/-- The fixed `partition_by_sum` refuses the D3 input instead of returning the split point 0 (empty first fold). -/
theorem distinct_length_le (l : List Nat) : (distinct l).length ≤ l.length := by
  induction l with
  | nil => simp [distinct]
  | cons x xs ih => unfold distinct; split_ifs <;> simp <;> omega

theorem distinct_mem (l : List Nat) (y : Nat) : y ∈ distinct l ↔ y ∈ l := by
  induction l with
  | nil => simp [distinct]
  | cons x xs ih =>
    unfold distinct
    split_ifs with h
    · rw [ih]; simp only [List.mem_cons]
      constructor
      · exact Or.inr
      · rintro (rfl | h') <;> [exact (by simpa using h); exact h']
    · simp [ih]

/-- `numpy.unique(l).size == l.size` exactly when `l` has no repeated value. -/
theorem npUniqueSize_eq_length_iff (l : List Nat) : npUniqueSize l = l.length ↔ l.Nodup := by
  unfold npUniqueSize
  induction l with
  | nil => simp [distinct]
  | cons x xs ih =>
    unfold distinct
    by_cases h : xs.contains x = true
    · have hx : x ∈ xs := by simpa using h
      have hle := distinct_length_le xs
      simp only [h, if_true, List.length_cons, List.nodup_cons, hx, not_true_eq_false, false_and, iff_false]
      omega
    · have hx : x ∉ xs := by simpa using h
      simp only [h, List.length_cons, List.nodup_cons, hx, not_false_eq_true, true_and, Bool.false_eq_true, if_false]
      rw [← ih]; omega

/-- **Bridge.**  `partition_by_sum` as regenerated from /repo's source text on every run (numpy primitives read as list functions:
    `cumsum`, `arange(1, parts) * ideal_sum`, `searchsorted(..., side="right")`, `unique(indices).size != indices.size or
    (indices.size > 0 and indices[0] == 0)`) equals the model's `partitionBySum` for every input. -/
theorem gen_partition_by_sum_eq_model (sizes : List Nat) (parts : Nat) :
    Gen.partitionBySum sizes parts = partitionBySum sizes parts := by
  unfold Gen.partitionBySum partitionBySum
  have hidx : ((npArange 1 parts).map (· * ((cumsum sizes).getLastD 0 / parts))).map (searchsortedRight (cumsum sizes))
      = (List.range (parts - 1)).map fun k => countLe (cumsum sizes) ((k + 1) * ((cumsum sizes).getLastD 0 / parts)) := by
    unfold npArange searchsortedRight
    simp only [List.map_map]
    rfl
  simp only [hidx]
  set idx := (List.range (parts - 1)).map fun k => countLe (cumsum sizes) ((k + 1) * ((cumsum sizes).getLastD 0 / parts)) with hI
  have hcond : ((npUniqueSize idx ≠ idx.length) ∨ (idx.length > 0 ∧ idx.headD 0 = 0))
      ↔ ((!decide idx.Nodup || idx.head? == some 0) = true) := by
    rw [Ne, npUniqueSize_eq_length_iff]
    cases idx with
    | nil => simp
    | cons a t => by_cases h : a ∈ t <;> simp [h]
  by_cases hp : parts > sizes.length
  · rw [if_pos (Or.inl hp), if_pos hp]
  · by_cases hc : (!decide idx.Nodup || idx.head? == some 0) = true
    · rw [if_pos (Or.inr (hcond.mpr hc)), if_neg hp]
      simp only [hc, if_true]
    · have hn : ¬ ((npUniqueSize idx ≠ idx.length) ∨ (idx.length > 0 ∧ idx.headD 0 = 0)) := fun h => hc (hcond.mp h)
      rw [if_neg (not_or.mpr ⟨hp, hn⟩), if_neg hp]
      simp only [hc, Bool.false_eq_true, if_false]

theorem d3_input_now_rejected : partitionBySum [10, 1, 1] 2 = .error .valueError := by decide +kernel

/-! Non-vacuity -/
example : partitionBySum [5, 6, 4, 6, 8, 1, 2, 6, 3, 3] 5 = .ok [1, 3, 4, 7] := by decide +kernel
example : splitRanges 5 [1, 3] = [[0], [1, 2], [3, 4]] ∧ kfoldRanges 5 3 = [[0, 1], [2, 3], [4]] := by decide +kernel
example : (blockKFoldTests [0, 0, 1, 2, 2, 2, 3] ⟨2, true, none⟩).toOption = some (false, [[0, 1, 2], [3, 4, 5, 6]]) := by
  decide +kernel

/-! ### The regenerated source satisfies the property -/
/-- The translated `partition_by_sum`: an accepted result has `parts − 1` distinct, non-decreasing split points, not starting at 0. -/
theorem src_partition_by_sum_spec (sizes : List Nat) (parts : Nat) (idx : List Nat) (h : Gen.partitionBySum sizes parts = .ok idx) :
    idx.length = parts - 1 ∧ idx.Nodup ∧ idx.Pairwise (· ≤ ·) ∧ idx.head? ≠ some 0 ∧ (∀ p ∈ idx, p ≤ sizes.length) ∧ parts ≤ sizes.length := by
  rw [gen_partition_by_sum_eq_model] at h
  exact partition_by_sum_spec sizes parts idx h

/-! ## `BlockKFold._iter_test_indices` / `BlockShuffleSplit._iter_test_indices` as regenerated from the source (Gen/CVSplit.lean) -/

theorem gen_block_kfold_eq_model (labels : List Nat) (n : Nat) (hn : 2 ≤ n) (bal : Bool) (order : Option (List Nat)) :
    Gen.blockKFoldTests labels n bal order = blockKFoldTests labels ⟨n, bal, order⟩ := by
  unfold Gen.blockKFoldTests blockKFoldTests
  have h2 : ¬ n < 2 := by omega
  simp only [h2, if_false, gen_partition_by_sum_eq_model, bind, Except.bind, pure, Except.pure]
  by_cases hg : n > (groupKeys (labelBound labels) labels).length
  · simp [hg, throw, throwThe, MonadExceptOf.throw]
  · simp only [hg, if_false]
    cases bal with
    | false => rfl
    | true =>
      simp only [if_true]
      cases partitionBySum _ n <;> rfl

theorem pointsOfBlocks_nil (labels : List Nat) : pointsOfBlocks labels [] = [] := by
  simp [pointsOfBlocks]

theorem getD_map' {α β : Type} (f : α → β) (l : List α) (i : Nat) (d : α) : (l.map f).getD i (f d) = f (l.getD i d) := by
  simp only [List.getD_eq_getElem?_getD, List.getElem?_map]
  cases l[i]? <;> rfl

theorem gen_block_shuffle_eq_model (labels : List Nat) (n b : Nat) (hb : 1 ≤ b) (cands : List (List Nat × List Nat)) :
    Except.ok (Gen.blockShuffleTests labels n b cands) = blockShuffleTests labels n b cands := by
  unfold Gen.blockShuffleTests blockShuffleTests
  have h1 : ¬ b < 1 := by omega
  simp only [h1, if_false, bind, Except.bind, pure, Except.pure]
  congr 1
  apply List.map_congr_left
  intro g _
  simp only [List.map_map, Function.comp_def]
  have := getD_map' (fun x : List Nat × List Nat => pointsOfBlocks labels (List.map (fun j => (groupKeys (labelBound labels) labels).getD j 0) x.2))
    (List.take b (List.drop (g * b) cands))
  have h0 := this (argminIdx
        (List.map
          (fun x : List Nat × List Nat =>
            ratAbs
              (((pointsOfBlocks labels
                        (List.map (fun j => (groupKeys (labelBound labels) labels).getD j 0) x.1)).length : Rat) /
                  ((pointsOfBlocks labels
                        (List.map (fun j => (groupKeys (labelBound labels) labels).getD j 0) x.2)).length : Rat) -
                (x.1.length : Rat) / (x.2.length : Rat)))
          (List.take b (List.drop (g * b) cands)))) ([], [])
  simp only [List.map_nil, pointsOfBlocks_nil] at h0
  exact h0

/-- **No block is split — about the source as it is now (BlockKFold):** whatever the labels, options and shuffled order, two samples with the
    same block label are on the same side of every fold the regenerated `_iter_test_indices` yields. -/
theorem src_kfold_never_splits_a_block (labels : List Nat) (n : Nat) (bal : Bool) (order : Option (List Nat)) (w : Bool) (tests : List (List Nat))
    (h : Gen.blockKFoldTests labels n bal order = .ok (w, tests)) (t : List Nat) (ht : t ∈ tests)
    (i j : Nat) (hi : i < labels.length) (hj : j < labels.length) (hsame : labels.getD i 0 = labels.getD j 0) :
    (i ∈ t ↔ j ∈ t) ∧ (i ∈ complement labels.length t ↔ j ∈ complement labels.length t) := by
  unfold Gen.blockKFoldTests at h
  simp only [bind, Except.bind, pure, Except.pure] at h
  split at h
  · cases h
  · simp only [Except.ok.injEq, Prod.mk.injEq] at h
    obtain ⟨_, rfl⟩ := h
    obtain ⟨f, _, rfl⟩ := List.mem_map.mp ht
    exact block_never_split labels _ i j hi hj hsame

/-- **No block is split — about the source as it is now (BlockShuffleSplit).** -/
theorem src_shuffle_never_splits_a_block (labels : List Nat) (n b : Nat) (cands : List (List Nat × List Nat)) (t : List Nat)
    (ht : t ∈ Gen.blockShuffleTests labels n b cands)
    (i j : Nat) (hi : i < labels.length) (hj : j < labels.length) (hsame : labels.getD i 0 = labels.getD j 0) :
    (i ∈ t ↔ j ∈ t) ∧ (i ∈ complement labels.length t ↔ j ∈ complement labels.length t) := by
  unfold Gen.blockShuffleTests at ht
  obtain ⟨g, _, rfl⟩ := List.mem_map.mp ht
  simp only [List.map_map, Function.comp_def]
  rw [List.getD_eq_getElem?_getD, List.getElem?_map]
  cases hc : (List.take b (List.drop (g * b) cands))[argminIdx _]? with
  | none =>
    simp only [Option.map_none, Option.getD_none]
    have := block_never_split labels [] i j hi hj hsame
    rwa [pointsOfBlocks_nil] at this
  | some c => exact block_never_split labels _ i j hi hj hsame

theorem cumsum_pairwise (xs : List Nat) : (cumsum xs).Pairwise (· ≤ ·) := by
  induction xs with
  | nil => simp [cumsum]
  | cons x xs ih =>
    simp only [cumsum, List.pairwise_cons, List.mem_map]
    refine ⟨?_, ?_⟩
    · rintro y ⟨z, _, rfl⟩; omega
    · exact (List.pairwise_map).mpr (ih.imp (by intro a b h; omega))

theorem splitRanges_lt (n : Nat) (points : List Nat) : ∀ f ∈ splitRanges n points, ∀ j ∈ f, j < n := by
  intro f hf j hj
  unfold splitRanges at hf
  obtain ⟨q, _, rfl⟩ := List.mem_map.mp hf
  have := (List.mem_filter.mp hj).1
  exact List.mem_range.mp this

theorem zero_cons_pairwise (l : List Nat) (h : l.Pairwise (· ≤ ·)) : ((0 : Nat) :: l).Pairwise (· ≤ ·) :=
  List.pairwise_cons.mpr ⟨fun _ _ => Nat.zero_le _, h⟩

/-- **Every sample is tested exactly once — about the source as it is now (BlockKFold):** whatever the labels, the number of splits and the
    balancing option (balanced split points from the regenerated `partition_by_sum`, or the equal-count fall-back), with the blocks in
    `np.unique` order or shuffled into any order that is a rearrangement of them, every sample index lies in EXACTLY ONE of the test sets the
    regenerated `_iter_test_indices` yields. -/
theorem src_kfold_every_sample_tested_once (labels : List Nat) (n : Nat) (bal : Bool) (order : Option (List Nat)) (w : Bool) (tests : List (List Nat))
    (horder : ∀ o, order = some o → o.Perm (groupKeys (labelBound labels) labels))
    (h : Gen.blockKFoldTests labels n bal order = .ok (w, tests)) (i : Nat) (hi : i < labels.length) :
    tests.countP (fun t => t.contains i) = 1 := by
  unfold Gen.blockKFoldTests at h
  simp only [bind, Except.bind, pure, Except.pure] at h
  split at h
  · cases h
  · simp only [Except.ok.injEq, Prod.mk.injEq] at h
    obtain ⟨_, rfl⟩ := h
    -- the block ids in use: a rearrangement of np.unique(labels)
    have hperm : (order.getD (groupKeys (labelBound labels) labels)).Perm (groupKeys (labelBound labels) labels) := by
      cases order with
      | none => exact List.Perm.refl _
      | some o => exact horder o rfl
    have hnd : (order.getD (groupKeys (labelBound labels) labels)).Nodup := (List.Perm.nodup_iff hperm).mpr (groupKeys_nodup _ _)
    have hall : ∀ l ∈ labels, l ∈ order.getD (groupKeys (labelBound labels) labels) := by
      intro l hl
      exact hperm.symm.subset ((groupKeys_mem _ _ l).mpr ⟨labelBound_gt labels l hl, hl⟩)
    have hlen : (order.getD (groupKeys (labelBound labels) labels)).length = (groupKeys (labelBound labels) labels).length := hperm.length_eq
    -- the folds of block positions partition the positions
    have hfolds : ∀ folds : List (List Nat),
        (∃ points : List Nat, points.Pairwise (· ≤ ·) ∧ folds = splitRanges (groupKeys (labelBound labels) labels).length points) →
        (folds.map fun f => pointsOfBlocks labels (f.map fun j => (order.getD (groupKeys (labelBound labels) labels)).getD j 0)).countP (fun t => t.contains i) = 1 := by
      rintro folds ⟨points, hs, rfl⟩
      apply samples_covered_once labels _ _ hnd hall
      · intro f hf j hj; rw [hlen]; exact splitRanges_lt _ _ f hf j hj
      · intro j hj; rw [hlen] at hj
        exact (fold_ranges_partition _ points (zero_cons_pairwise _ hs) j hj).2
      · exact hi
    have hk : ∃ points : List Nat, points.Pairwise (· ≤ ·) ∧
        kfoldRanges (order.getD (groupKeys (labelBound labels) labels)).length n = splitRanges (groupKeys (labelBound labels) labels).length points := by
      rw [hlen]
      exact ⟨_, (cumsum_pairwise _).sublist (List.dropLast_sublist _), rfl⟩
    apply hfolds
    cases bal with
    | false => simpa using hk
    | true =>
      simp only [if_true]
      cases hp : Gen.partitionBySum (List.map (fun i => (List.filter (fun x => x == i) labels).length) (order.getD (groupKeys (labelBound labels) labels))) n with
      | error e => simpa using hk
      | ok sp =>
        simp only []
        rw [hlen]
        exact ⟨sp, (src_partition_by_sum_spec _ _ _ hp).2.2.1, rfl⟩

end Verde.C11
