/-
  C13 — Regions, bounds and point-in-region tests are tight and consistent.
-/
import VerdeModel.Gen.Region
import VerdeModel.Lemmas.MinMax
import VerdeModel.Lemmas.Coords
import VerdeModel.Gen.Coords
namespace Verde.C13
open Verde

/-- `get_region` is the tight bounding box: every coordinate lies within the bounds and each bound is attained. -/
theorem get_region_tight (east north : List Rat) (r : Region) (h : getRegion east north = some r) :
    (∀ e ∈ east, r.w ≤ e ∧ e ≤ r.e) ∧ (∀ n ∈ north, r.s ≤ n ∧ n ≤ r.n) ∧
    r.w ∈ east ∧ r.e ∈ east ∧ r.s ∈ north ∧ r.n ∈ north := by
  unfold getRegion at h
  cases hw : listMin east with
  | none => simp [hw] at h
  | some w =>
  cases he : listMax east with
  | none => simp [hw, he] at h
  | some e =>
  cases hs : listMin north with
  | none => simp [hw, he, hs] at h
  | some s =>
  cases hn : listMax north with
  | none => simp [hw, he, hs, hn] at h
  | some n =>
  simp [hw, he, hs, hn] at h
  subst h
  exact ⟨fun x hx => ⟨listMin_le hw x hx, listMax_ge he x hx⟩,
         fun x hx => ⟨listMin_le hs x hx, listMax_ge hn x hx⟩,
         listMin_mem hw, listMax_mem he, listMin_mem hs, listMax_mem hn⟩

theorem get_region_defined (east north : List Rat) (he : east ≠ []) (hn : north ≠ []) :
    ∃ r, getRegion east north = some r := by
  obtain ⟨w, hw⟩ := listMin_isSome he
  obtain ⟨e, he'⟩ := listMax_isSome he
  obtain ⟨s, hs⟩ := listMin_isSome hn
  obtain ⟨n, hn'⟩ := listMax_isSome hn
  exact ⟨⟨w, e, s, n⟩, by simp [getRegion, hw, he', hs, hn']⟩

/-- `inside` is exactly the closed-box predicate. -/
theorem inside_iff (r : Region) (e n : Rat) :
    insidePt r e n = true ↔ (r.w ≤ e ∧ e ≤ r.e ∧ r.s ≤ n ∧ n ≤ r.n) := by
  simp [insidePt, and_assoc]

/-- Bridge: `inside` as regenerated from /repo's source text (its `greater_equal / less_equal / logical_and` ufunc calls read at one
    element; the `out=` buffers are allocation details) is the model's closed-box predicate. -/
theorem gen_inside_eq_model (r : Region) (e n : Rat) : Gen.insidePt r.w r.e r.s r.n e n = insidePt r e n := by
  unfold Gen.insidePt insidePt
  by_cases h1 : r.w ≤ e <;> by_cases h2 : e ≤ r.e <;> by_cases h3 : r.s ≤ n <;> by_cases h4 : n ≤ r.n <;> simp [h1, h2, h3, h4, ge_iff_le]

/-- Bridge: `get_region` as regenerated from /repo's source text (`np.min`/`np.max` of the first two coordinate arrays, in the
    order W, E, S, N) is the model's bounding box. -/
theorem gen_get_region_eq_model (east north : List Rat) (r : Region) :
    getRegion east north = some r ↔ Gen.getRegion east north = (some r.w, some r.e, some r.s, some r.n) := by
  unfold getRegion Gen.getRegion
  cases h1 : listMin east <;> cases h2 : listMax east <;> cases h3 : listMin north <;> cases h4 : listMax north <;>
    simp [bind, Option.bind, pure]
  constructor
  · rintro rfl; simp
  · rintro ⟨rfl, rfl, rfl, rfl⟩; rfl

/-- With NaN-able coordinates (`none` = NaN): a point is inside iff BOTH coordinates are numbers satisfying the closed-box
    predicate; a point with a NaN coordinate is never inside (all four comparisons are false). -/
theorem inside_opt_iff (r : Region) (e n : Option Rat) :
    insidePtOpt r e n = true ↔ ∃ x y, e = some x ∧ n = some y ∧ r.w ≤ x ∧ x ≤ r.e ∧ r.s ≤ y ∧ y ≤ r.n := by
  cases e <;> cases n <;> simp [insidePtOpt, inside_iff]
theorem inside_nan_is_outside (r : Region) (e n : Option Rat) (h : e = none ∨ n = none) : insidePtOpt r e n = false := by
  rcases h with rfl | rfl
  · cases n <;> rfl
  · cases e <;> rfl

/-- Every point is inside its own bounding region. -/
theorem point_inside_own_region (east north : List Rat) (r : Region) (h : getRegion east north = some r)
    (e n : Rat) (hp : (e, n) ∈ east.zip north) : insidePt r e n = true := by
  obtain ⟨h1, h2, _⟩ := get_region_tight east north r h
  have he := (List.of_mem_zip hp).1
  have hn := (List.of_mem_zip hp).2
  rw [inside_iff]
  exact ⟨(h1 e he).1, (h1 e he).2, (h2 n hn).1, (h2 n hn).2⟩

/-- Every node produced for a shape, or for a spacing adjusted to the region, lies inside `[start, stop]`
    (both registrations).  Combined with `C07.line_spacing_normal_form` / `line_size_normal_form`. -/
theorem nodes_inside (start stop : Rat) (hle : start ≤ stop) (m : Nat) (hm : 1 ≤ m) (px : Bool)
    (x : Rat) (hx : x ∈ nodes start ((stop - start) / (m : Rat)) m px) : start ≤ x ∧ x ≤ stop := by
  have hmpos : (0 : Rat) < (m : Rat) := by exact_mod_cast hm
  have hstep : 0 ≤ (stop - start) / (m : Rat) := div_nonneg (by linarith) hmpos.le
  have hfull : (m : Rat) * ((stop - start) / (m : Rat)) = stop - start := by field_simp
  unfold nodes at hx
  cases px
  · simp only [Bool.false_eq_true, if_false, List.mem_map, List.mem_range] at hx
    obtain ⟨i, hi, rfl⟩ := hx
    have hi0 : (0 : Rat) ≤ (i : Rat) := by exact_mod_cast Nat.zero_le i
    have hi1 : (i : Rat) ≤ (m : Rat) := by exact_mod_cast (by omega : i ≤ m)
    constructor
    · have := mul_nonneg hi0 hstep; linarith
    · have := mul_le_mul_of_nonneg_right hi1 hstep; linarith
  · simp only [if_true, List.mem_map, List.mem_range] at hx
    obtain ⟨i, hi, rfl⟩ := hx
    have hi0 : (0 : Rat) ≤ (i : Rat) := by exact_mod_cast Nat.zero_le i
    have hi1 : (i : Rat) + 1 ≤ (m : Rat) := by exact_mod_cast hi
    constructor
    · have := mul_nonneg (by linarith : (0 : Rat) ≤ (i : Rat) + 1/2) hstep; linarith
    · have := mul_le_mul_of_nonneg_right (by linarith : (i : Rat) + 1/2 ≤ (m : Rat)) hstep; linarith

/-- Grid-line / pixel nodes for a spacing with `adjust='spacing'` lie inside the requested interval. -/
theorem line_spacing_nodes_inside (start stop sp : Rat) (hsp : 0 < sp) (hle : start ≤ stop) (px : Bool)
    (xs : List Rat) (h : lineCoordinates start stop none (some sp) .spacing px = .ok xs) :
    ∀ x ∈ xs, start ≤ x ∧ x ≤ stop := by
  have hm := intervals_pos start stop sp
  have hnf : lineCoordinates start stop none (some sp) .spacing px =
      .ok (nodes start ((stop - start) / (intervals start stop sp : Rat)) (intervals start stop sp) px) := by
    have hm0 : ((intervals start stop sp : Nat) : Rat) ≠ 0 := by
      have : (0 : Rat) < (intervals start stop sp : Rat) := by exact_mod_cast hm
      exact ne_of_gt this
    -- restated from C07 (kept local so this file does not depend on another Props file)
    have h1 := spacingToSize_fst start stop sp false hsp hle
    have h2 := spacingToSize_snd start stop sp false hsp hle
    rcases hs : spacingToSize start stop sp false with ⟨sz, stop'⟩
    rw [hs] at h1 h2
    simp only [Bool.false_eq_true, if_false] at h1 h2
    have e1 : (Adjust.spacing == Adjust.region) = false := rfl
    have hsz : ¬ sz < 0 := by omega
    have htn : sz.toNat = intervals start stop sp + 1 := by omega
    unfold lineCoordinates
    simp only [e1, hs, hsz, if_false, htn, h2]
    cases px
    · simp only [Bool.false_eq_true, if_false]; rw [linspace_eq_nodes _ _ _ hm]
    · simp only [if_true]; rw [pixelShift_linspace _ _ _ hm]
  rw [hnf] at h
  cases h
  intro x hx
  exact nodes_inside start stop hle _ hm px x hx

/-- `scatter_points`: a uniform variate in `[0,1)` lands inside the closed interval. -/
theorem scatter_inside (lo hi u : Rat) (hle : lo ≤ hi) (hu0 : 0 ≤ u) (hu1 : u < 1) :
    lo ≤ lo + (hi - lo) * u ∧ lo + (hi - lo) * u ≤ hi := by
  have hd : 0 ≤ hi - lo := by linarith
  constructor
  · have := mul_nonneg hd hu0; linarith
  · have := mul_le_mul_of_nonneg_left hu1.le hd; linarith

theorem scatter_points_inside (w e s n : Rat) (hwe : w ≤ e) (hsn : s ≤ n) (ue un extra : List Rat)
    (hue : ∀ u ∈ ue, 0 ≤ u ∧ u < 1) (hun : ∀ u ∈ un, 0 ≤ u ∧ u < 1) :
    ∃ es ns rest, scatterPoints [w, e, s, n] ue un extra = .ok (es :: ns :: rest) ∧
      (∀ x ∈ es, w ≤ x ∧ x ≤ e) ∧ (∀ y ∈ ns, s ≤ y ∧ y ≤ n) ∧ es.length = ue.length ∧ ns.length = un.length := by
  refine ⟨scatterAxis w e ue, scatterAxis s n un, extra.map fun v => ue.map fun _ => v, ?_, ?_, ?_,
    by simp [scatterAxis], by simp [scatterAxis]⟩
  · simp [scatterPoints, checkRegion, not_lt.mpr hwe, not_lt.mpr hsn, bind, Except.bind, pure, Except.pure]
  · intro x hx
    simp only [scatterAxis, List.mem_map] at hx
    obtain ⟨u, hu, rfl⟩ := hx
    exact scatter_inside w e u hwe (hue u hu).1 (hue u hu).2
  · intro x hx
    simp only [scatterAxis, List.mem_map] at hx
    obtain ⟨u, hu, rfl⟩ := hx
    exact scatter_inside s n u hsn (hun u hu).1 (hun u hu).2

/-- Bridge: `pad_region` as regenerated from /repo's source text equals the model's. -/
theorem gen_pad_region_eq_model (r : Region) (pn pe : Rat) :
    Gen.padRegion r.w r.e r.s r.n pn pe =
      ((padRegion r pn pe).w, (padRegion r pn pe).e, (padRegion r pn pe).s, (padRegion r pn pe).n) := rfl

/-- Bridge: `check_region` as regenerated from /repo's source text (length test, `W > E`, `S > N`, in the code's order) accepts
    and rejects exactly what the model's `checkRegion` does on a list of four bounds. -/
theorem gen_check_region_eq_model (w e s n : Rat) :
    Gen.checkRegion4 w e s n = (checkRegion [w, e, s, n]).map (fun _ => ()) := by
  unfold Gen.checkRegion4 checkRegion
  by_cases h1 : w > e
  · simp [h1, Except.map]
  · by_cases h2 : s > n
    · simp [h1, h2, Except.map]
    · simp [h1, h2, Except.map]

/-- `pad_region` moves each bound outwards by the (north, east) amounts … -/
theorem pad_outwards (r : Region) (pn pe : Rat) :
    padRegion r pn pe = ⟨r.w - pe, r.e + pe, r.s - pn, r.n + pn⟩ := rfl
/-- … and is undone by the opposite pad. -/
theorem pad_unpad (r : Region) (pn pe : Rat) : padRegion (padRegion r pn pe) (-pn) (-pe) = r := by
  cases r; simp [padRegion]

theorem checkRegion_ok {l : List Rat} {r : Region} (h : checkRegion l = .ok r) :
    ∃ w e s n, l = [w, e, s, n] ∧ w ≤ e ∧ s ≤ n ∧ r = ⟨w, e, s, n⟩ := by
  unfold checkRegion at h
  split at h
  · rename_i w e s n
    split_ifs at h with h1 h2
    cases h
    exact ⟨w, e, s, n, rfl, not_lt.mp h1, not_lt.mp h2, rfl⟩
  · cases h

/-- `check_region` rejects exactly: wrong length, `W > E`, or `S > N`. -/
theorem check_region_accepts_iff (l : List Rat) :
    (∃ r, checkRegion l = .ok r) ↔ ∃ w e s n, l = [w, e, s, n] ∧ w ≤ e ∧ s ≤ n := by
  constructor
  · rintro ⟨r, h⟩
    obtain ⟨w, e, s, n, hl, h1, h2, _⟩ := checkRegion_ok h
    exact ⟨w, e, s, n, hl, h1, h2⟩
  · rintro ⟨w, e, s, n, rfl, h1, h2⟩
    exact ⟨⟨w, e, s, n⟩, by simp [checkRegion, not_lt.mpr h1, not_lt.mpr h2]⟩

theorem check_region_keeps_bounds (l : List Rat) (r : Region) (h : checkRegion l = .ok r) :
    l = [r.w, r.e, r.s, r.n] := by
  obtain ⟨w, e, s, n, hl, _, _, hr⟩ := checkRegion_ok h
  subst hr; exact hl

/-- `maxabs` is the largest absolute value over all elements of all arrays. -/
theorem arrMaxabs_spec (a : List Rat) (ha : a ≠ []) :
    (∀ x ∈ a, |x| ≤ arrMaxabs a) ∧ ∃ x ∈ a, |x| = arrMaxabs a := by
  obtain ⟨lo, hlo⟩ := listMin_isSome ha
  obtain ⟨hi, hhi⟩ := listMax_isSome ha
  unfold arrMaxabs
  rw [hlo, hhi]
  simp only [Option.getD_some, ratAbs_eq_abs]
  constructor
  · intro x hx
    have h1 := listMin_le hlo x hx
    have h2 := listMax_ge hhi x hx
    rw [abs_le]
    have a1 := le_ratMax_left |lo| |hi|
    have a2 := le_ratMax_right |lo| |hi|
    constructor
    · have := neg_abs_le lo; linarith
    · have := le_abs_self hi; linarith
  · rcases ratMax_eq |lo| |hi| with e | e
    · exact ⟨lo, listMin_mem hlo, e.symm⟩
    · exact ⟨hi, listMax_mem hhi, e.symm⟩

theorem maxabs_spec (arrays : List (List Rat)) (m : Rat) (h : maxabs arrays = some m) :
    (∀ a ∈ arrays, ∀ x ∈ a, |x| ≤ m) ∧ ∃ a ∈ arrays, ∃ x ∈ a, |x| = m := by
  unfold maxabs at h
  split_ifs at h with hany
  have hne : ∀ a ∈ arrays, a ≠ [] := by
    intro a ha hnil
    apply hany
    simp only [List.any_eq_true]
    exact ⟨a, ha, by simp [hnil]⟩
  constructor
  · intro a ha x hx
    have h1 := (arrMaxabs_spec a (hne a ha)).1 x hx
    have h2 := listMax_ge h (arrMaxabs a) (List.mem_map_of_mem ha)
    linarith
  · have hm := listMax_mem h
    simp only [List.mem_map] at hm
    obtain ⟨a, ha, rfl⟩ := hm
    obtain ⟨x, hx, e⟩ := (arrMaxabs_spec a (hne a ha)).2
    exact ⟨a, ha, x, hx, e⟩

/-- `project_region`: every projected node of the region's grid lies inside the returned box, whatever the projection
    (monotone or not), and each bound is attained by some projected node. -/
theorem project_region_bounds (region : List Rat) (p : Proj) (size : Nat) (r : Region)
    (east north : List Rat) (hg : gridLines region ⟨some (size, size), none, .spacing, false⟩ = .ok (east, north))
    (h : projectRegion region p size = .ok (some r)) :
    ∀ x ∈ east, ∀ y ∈ north, insidePt r (p.apply (x, y)).1 (p.apply (x, y)).2 = true := by
  unfold projectRegion at h
  simp only [hg, bind, Except.bind, pure, Except.pure, Except.ok.injEq] at h
  intro x hx y hy
  obtain ⟨h1, h2, _⟩ := get_region_tight _ _ r h
  have hmem : p.apply (x, y) ∈ north.flatMap fun y => east.map fun x => p.apply (x, y) := by
    simp only [List.mem_flatMap, List.mem_map]
    exact ⟨y, hy, x, hx, rfl⟩
  rw [inside_iff]
  have m1 := List.mem_map_of_mem (f := Prod.fst) hmem
  have m2 := List.mem_map_of_mem (f := Prod.snd) hmem
  exact ⟨(h1 _ m1).1, (h1 _ m1).2, (h2 _ m2).1, (h2 _ m2).2⟩

/-! Non-vacuity -/
example : getRegion [1, -3, 5/2] [7, 7, 7] = some ⟨-3, 5/2, 7, 7⟩ := by decide +kernel
example : maxabs [[1, -5, 2], [3]] = some 5 := by decide +kernel
example : checkRegion [2, 1, 0, 1] = .error .valueError := by decide +kernel

/-! ### The regenerated source satisfies the property -/
/-- The translated `inside` is exactly the closed-box predicate; the translated `pad_region` moves each bound outwards and is undone by the
    opposite pad; the translated `check_region` accepts exactly W ≤ E and S ≤ N. -/
theorem src_inside_iff (r : Region) (e n : Rat) :
    Gen.insidePt r.w r.e r.s r.n e n = true ↔ (r.w ≤ e ∧ e ≤ r.e ∧ r.s ≤ n ∧ n ≤ r.n) := by
  rw [gen_inside_eq_model]; exact inside_iff r e n

theorem src_pad_unpad (r : Region) (pn pe : Rat) :
    let p := Gen.padRegion r.w r.e r.s r.n pn pe
    Gen.padRegion p.1 p.2.1 p.2.2.1 p.2.2.2 (-pn) (-pe) = (r.w, r.e, r.s, r.n) := by
  simp only [Gen.padRegion]
  refine Prod.ext ?_ (Prod.ext ?_ (Prod.ext ?_ ?_)) <;> simp

theorem src_check_region_accepts_iff (w e s n : Rat) : Gen.checkRegion4 w e s n = .ok () ↔ (w ≤ e ∧ s ≤ n) := by
  unfold Gen.checkRegion4
  by_cases h1 : w > e
  · simp [h1]
  · by_cases h2 : s > n
    · simp [h1, h2]
    · simp [h1, h2]; exact ⟨not_lt.mp h1, not_lt.mp h2⟩

/-! ### Bridges: `maxabs`, `scatter_points`, `project_region` regenerated from source -/

/-- **Bridges** (pinned translations, regenerated on every run and withheld as soon as a statement changes): `maxabs`, `scatter_points` (the
    pairs (W, E), (S, N) of the reshaped region, one uniform draw per pair in that order, constant extra coordinates) and `project_region` (the
    101×101 grid of the region, projected node by node, then min/max in the order W, E, S, N) are the model's definitions. -/
theorem gen_maxabs_eq_model (arrays : List (List Rat)) : Gen.maxabs arrays = maxabs arrays := rfl

theorem gen_scatter_points_eq_model (region : List Rat) (ue un extra : List Rat) :
    Gen.scatterPoints region [ue, un] extra = scatterPoints region ue un extra := by
  unfold Gen.scatterPoints scatterPoints scatterAxis
  cases checkRegion region with
  | error e => rfl
  | ok r =>
    simp only [bind, Except.bind, pure, Except.pure, List.zip_cons_cons, List.zip_nil_right, List.map_cons, List.map_nil, List.headD_cons,
      List.map_map, List.cons_append, List.nil_append]
    rfl

/-- The four optional bounds as a region (absent for an empty set of points). -/
def boundsToRegion : Option Rat × Option Rat × Option Rat × Option Rat → Option Region
  | (some w, some e, some s, some n) => some ⟨w, e, s, n⟩
  | _ => none

theorem gen_project_region_eq_model (region : List Rat) (p : Proj) :
    projectRegion region p = (Gen.projectRegion region p.apply).map boundsToRegion := by
  unfold Gen.projectRegion projectRegion
  simp only [bind, Except.bind]
  cases gridLines region ⟨some (101, 101), none, .spacing, false⟩ with
  | error e => rfl
  | ok l =>
    obtain ⟨east, north⟩ := l
    simp only [pure, Except.pure, Except.map, getRegion, List.map_flatMap, List.map_map]
    congr 1
    simp only [Function.comp_def]
    cases listMin (List.flatMap (fun y => List.map (fun x => (p.apply (x, y)).1) east) north) <;>
    cases listMax (List.flatMap (fun y => List.map (fun x => (p.apply (x, y)).1) east) north) <;>
    cases listMin (List.flatMap (fun y => List.map (fun x => (p.apply (x, y)).2) east) north) <;>
    cases listMax (List.flatMap (fun y => List.map (fun x => (p.apply (x, y)).2) east) north) <;> rfl

end Verde.C13
