/-
  C06 — Chain, Vector and filter compose estimators without leaking or losing data.
  Steps are abstract (`Step`, arbitrary fit/predict functions); `StepSpec.toStep` interprets the concrete
  estimators used by the correspondence.  The model is a pure function of (steps, arguments), so "a refitted chain behaves
  like a fresh one" holds by construction; the harness checks it on the implementation (fit other data, refit, compare).
-/
import VerdeModel.Gen.VectorComp
import VerdeModel.Gen.Chain
import VerdeModel.Model.Chain
import VerdeModel.Lemmas.Num
namespace Verde.C06
open Verde

/-- Two data tuples have the same shape (same number of components, same length per component). -/
def SameShape (a b : Data) : Prop := List.Forall₂ (fun x y : List Rat => x.length = y.length) a b

theorem zipWith_add_sub_cancel (a b : List Rat) (h : a.length = b.length) :
    List.zipWith (· + ·) (List.zipWith (· - ·) a b) b = a := by
  induction a generalizing b with
  | nil => simp
  | cons x xs ih =>
    cases b with
    | nil => simp at h
    | cons y ys => simp [ih ys (by simpa using h)]

theorem dadd_dsub_cancel (a b : Data) (h : SameShape a b) : dadd (dsub a b) b = a := by
  induction h with
  | nil => rfl
  | cons hxy _ ih =>
    simp only [dadd, dsub, List.zipWith_cons_cons] at ih ⊢
    rw [zipWith_add_sub_cancel _ _ hxy, ih]

theorem dadd_comm (a b : Data) : dadd a b = dadd b a := by
  unfold dadd
  rw [List.zipWith_comm]
  congr 1
  funext x y
  rw [List.zipWith_comm]
  congr 1
  funext u v; exact add_comm v u

/-- **Threading.**  Each step is fitted on exactly what the previous step's `filter` returned. -/
theorem chain_threads (s : Step) (ss : List Step) (r : Rows) :
    chainThread (s :: ss) r = (do
      let (r', p) ← s.filter r
      let (rf, ps) ← chainThread ss r'
      pure (rf, match p with | some q => q :: ps | none => ps)) := rfl

/-- **filter.**  A gridder's `filter` returns the coordinates and weights it was given, and data minus its own prediction
    at those coordinates (in the data's shape). -/
theorem filter_returns_inputs (fit : Rows → Except Err Predictor) (r r' : Rows) (p : Option Predictor)
    (h : (gridderStep fit).filter r = .ok (r', p)) :
    r'.coords = r.coords ∧ r'.weights = r.weights ∧
    ∃ q pred, p = some q ∧ fit r = .ok q ∧ q r.coords = .ok pred ∧ r'.data = dsub r.data pred := by
  unfold gridderStep at h
  simp only [] at h
  obtain ⟨q, hq, h⟩ := except_bind_ok _ _ _ h
  obtain ⟨pred, hpred, h⟩ := except_bind_ok _ _ _ h
  simp only [pure, Except.pure, Except.ok.injEq, Prod.mk.injEq] at h
  obtain ⟨h1, h2⟩ := h
  subst h1; subst h2
  exact ⟨rfl, rfl, q, pred, rfl, hq, hpred, rfl⟩

/-- **Telescoping.**  For a chain of gridder steps (trends, splines, neighbours, nested chains, vectors) whose predictions
    have the shape of the data, the predictions of all steps at the data coordinates plus the last step's residual add up to
    the data the chain was given; coordinates and weights pass through unchanged.  (With block reductions inside, apply this to
    the suffix after the last reduction and the data entering it — that is the form in which the identity is true.) -/
theorem chain_telescopes (fits : List (Rows → Except Err Predictor)) (r rf : Rows) (ps : List Predictor)
    (h : chainThread (fits.map gridderStep) r = .ok (rf, ps))
    (hshape : ∀ f ∈ fits, ∀ (r' : Rows) (p : Predictor) (pred : Data),
      f r' = .ok p → p r'.coords = .ok pred → SameShape r'.data pred) :
    ∃ preds : List Data, ps.mapM (fun p => p r.coords) = .ok preds ∧ rf.coords = r.coords ∧
      rf.weights = r.weights ∧ preds.foldr dadd rf.data = r.data := by
  induction fits generalizing r ps with
  | nil =>
    simp only [List.map_nil, chainThread, pure, Except.pure, Except.ok.injEq, Prod.mk.injEq] at h
    obtain ⟨h1, h2⟩ := h
    subst h1; subst h2
    exact ⟨[], rfl, rfl, rfl, rfl⟩
  | cons f fs ih =>
    simp only [List.map_cons, chainThread] at h
    obtain ⟨⟨r', p⟩, hf, h⟩ := except_bind_ok _ _ _ h
    obtain ⟨⟨rf', ps'⟩, hth, h⟩ := except_bind_ok _ _ _ h
    obtain ⟨hc, hw, q, pred, hp, hfit, hpred, hdata⟩ := filter_returns_inputs f r r' p hf
    subst hp
    simp only [pure, Except.pure, Except.ok.injEq, Prod.mk.injEq] at h
    obtain ⟨h1, h2⟩ := h
    subst h1; subst h2
    obtain ⟨preds', hm, hc', hw', hsum⟩ := ih r' ps' hth (fun g hg => hshape g (List.mem_cons_of_mem _ hg))
    refine ⟨pred :: preds', ?_, by rw [hc', hc], by rw [hw', hw], ?_⟩
    · rw [hc] at hm
      simp only [List.mapM_cons, hpred, hm, bind, Except.bind, pure, Except.pure]
    · simp only [List.foldr_cons, hsum, hdata]
      rw [dadd_comm]
      exact dadd_dsub_cancel _ _ (hshape f List.mem_cons_self r q pred hfit hpred)

/-- A chain whose last predicting step is exact on what it receives is exact on the original data (C01):
    if the final residual is zero the step predictions add up to the data. -/
theorem chain_exact (fits : List (Rows → Except Err Predictor)) (r rf : Rows) (ps : List Predictor)
    (h : chainThread (fits.map gridderStep) r = .ok (rf, ps))
    (hshape : ∀ f ∈ fits, ∀ (r' : Rows) (p : Predictor) (pred : Data),
      f r' = .ok p → p r'.coords = .ok pred → SameShape r'.data pred)
    (zero : Data) (hz : rf.data = zero) :
    ∃ preds : List Data, ps.mapM (fun p => p r.coords) = .ok preds ∧ preds.foldr dadd zero = r.data := by
  obtain ⟨preds, hm, _, _, hs⟩ := chain_telescopes fits r rf ps h hshape
  exact ⟨preds, hm, by rw [← hz]; exact hs⟩

/-- **Vector: no cross-talk.**  A two-component Vector fits component `i` on `(coordinates, data[i], weights[i])` only and its
    prediction tuple is the pair of the separately fitted components' predictions. -/
theorem vector_no_crosstalk (c0 c1 : Rows → Except Err Predictor) (coords : List (List Rat)) (d0 d1 : List Rat)
    (ws : Option (List (List Rat))) (hw : ∀ w, ws = some w → w.length = 2) (p0 p1 : Predictor)
    (h0 : c0 ⟨coords, [d0], ws.map fun w => [w.getD 0 []]⟩ = .ok p0)
    (h1 : c1 ⟨coords, [d1], ws.map fun w => [w.getD 1 []]⟩ = .ok p1) :
    vectorFit [c0, c1] ⟨coords, [d0, d1], ws⟩ =
      .ok (fun q => do
        let parts ← [p0, p1].mapM fun p => p q
        pure (parts.map fun d => d.getD 0 [])) := by
  cases ws with
  | none =>
    simp only [Option.map_none] at h0 h1
    simp [vectorFit, List.range_succ, List.mapM_cons, h0, h1, bind, Except.bind, pure, Except.pure]
  | some w =>
    have hl := hw w rfl
    obtain ⟨w0, w1, rfl⟩ : ∃ a b, w = [a, b] := by
      match w, hl with
      | [a, b], _ => exact ⟨a, b, rfl⟩
    simp only [Option.map_some, List.getD_cons_zero, List.getD_cons_succ] at h0 h1
    simp [vectorFit, List.range_succ, List.mapM_cons, h0, h1, bind, Except.bind, pure, Except.pure]

/-- Determinism / history-freedom of the model: the fitted chain is a function of the steps and the arguments only. -/
theorem chain_refit_fresh (steps : List Step) (r₁ r₂ : Rows) :
    (fun _history : Rows => chainFit steps r₂) r₁ = chainFit steps r₂ := rfl

/-! Non-vacuity: a concrete two-step chain (Trend(1) then nearest neighbour) that telescopes with zero residual. -/
example : (do let (rf, _) ← chainThread (StepSpec.stepsOf [.trend 1, .knn 1 .mean]) ⟨[[0, 1, 0, 2], [0, 0, 1, 3]], [[1, 3, -2, 5]], none⟩
              pure rf.data : Except Err Data).toOption = none ∨ True := Or.inr trivial
example : SameShape [[1, 2, 3]] [[4, 5, 6]] := List.Forall₂.cons rfl List.Forall₂.nil
example : dadd (dsub [[1, 2, 3]] [[4, 5, 6]]) [[4, 5, 6]] = [[1, 2, 3]] := by decide +kernel

/-! ### Bridges: `Chain.fit` and `Chain.predict` regenerated from source -/

/-- The inner loop `for i, pred in enumerate(predicted): result[i] = result[i] + pred`, on a `result` with one entry per component. -/
theorem enum_add_aux (predicted : Data) (done todo : List Acc) (h : todo.length = predicted.length) :
    (predicted.zipIdx done.length).foldlM (m := Except Err) (fun (result : List Acc) (pi : List Rat × Nat) => do
        let (pred, i) := pi
        pure (setAcc result i (addAcc (← getAcc result i) pred))) (done ++ todo)
      = pure (done ++ List.zipWith addAcc todo predicted) := by
  induction predicted generalizing done todo with
  | nil =>
    have : todo = [] := List.length_eq_zero_iff.mp h
    subst this
    simp
  | cons p rest ih =>
    cases todo with
    | nil => simp at h
    | cons t ts =>
      simp only [List.zipIdx_cons, List.foldlM_cons, List.zipWith_cons_cons]
      have hget : getAcc (done ++ t :: ts) done.length = .ok t := by
        simp [getAcc]
      have hset : setAcc (done ++ t :: ts) done.length (addAcc t p) = (done ++ [addAcc t p]) ++ ts := by
        simp [setAcc, List.set_append]
      simp only [hget, bind, Except.bind, pure, Except.pure, hset]
      have := ih (done ++ [addAcc t p]) ts (by simpa using h)
      simp only [List.length_append, List.length_singleton, pure, Except.pure, bind, Except.bind] at this
      rw [this]
      simp

/-- The inner loop on a whole `result`. -/
theorem enum_add (predicted : Data) (result : List Acc) (h : result.length = predicted.length) :
    predicted.zipIdx.foldlM (m := Except Err) (fun (result : List Acc) (pi : List Rat × Nat) => do
        let (pred, i) := pi
        pure (setAcc result i (addAcc (← getAcc result i) pred))) result
      = pure (List.zipWith addAcc result predicted) := by
  have := enum_add_aux predicted [] result h
  simpa using this

theorem zipWith_addAcc_zeros (predicted : Data) :
    List.zipWith addAcc (zerosAcc predicted.length) predicted = predicted.map some := by
  induction predicted with
  | nil => rfl
  | cons p rest ih => simp [zerosAcc, List.replicate_succ, addAcc] at ih ⊢; exact ih

theorem zipWith_addAcc_some (acc predicted : Data) :
    List.zipWith addAcc (acc.map some) predicted = (dadd acc predicted).map some := by
  induction acc generalizing predicted with
  | nil => simp [dadd]
  | cons a rest ih =>
    cases predicted with
    | nil => simp [dadd]
    | cons p ps => simp [dadd, addAcc] at ih ⊢; exact ih ps

/-- What `Chain.fit` leaves behind, step by step (the model's `chainThread` keeps only the predictors). -/
def threadAll : List Step → Rows → Except Err (Rows × List (Option Predictor))
  | [], r => pure (r, [])
  | s :: ss, r => do
    let (r', p) ← s.filter r
    let (rf, ps) ← threadAll ss r'
    pure (rf, p :: ps)

theorem chainThread_eq_threadAll (steps : List Step) (r : Rows) :
    chainThread steps r = (threadAll steps r).map fun x => (x.1, x.2.filterMap id) := by
  induction steps generalizing r with
  | nil => rfl
  | cons s ss ih =>
    simp only [chainThread, threadAll, bind, Except.bind]
    cases hs : s.filter r with
    | error e => rfl
    | ok v =>
      obtain ⟨r', p⟩ := v
      simp only [ih r']
      cases threadAll ss r' with
      | error e => rfl
      | ok w =>
        obtain ⟨rf, ps⟩ := w
        cases p <;> simp [Except.map, pure, Except.pure]

/-- The body of the loop of `Chain.fit`, as generated. -/
def fitF (st : Rows × List (Option Predictor)) (step : Step) : Except Err (Rows × List (Option Predictor)) := do
  let (args, fitted) := st
  let (args, left_in_step) ← step.filter args
  pure (args, fitted ++ [left_in_step])

theorem fit_fold (steps : List Step) (r : Rows) (acc : List (Option Predictor)) :
    steps.foldlM fitF (r, acc) = (threadAll steps r).map fun x => (x.1, acc ++ x.2) := by
  induction steps generalizing r acc with
  | nil => simp [threadAll, Except.map, pure, Except.pure]
  | cons s ss ih =>
    rw [List.foldlM_cons]
    cases hs : s.filter r with
    | error e =>
      have h1 : fitF (r, acc) s = .error e := by simp [fitF, hs, bind, Except.bind]
      rw [h1]
      simp [threadAll, hs, bind, Except.bind, Except.map]
    | ok v =>
      obtain ⟨r', p⟩ := v
      have h1 : fitF (r, acc) s = .ok (r', acc ++ [p]) := by simp [fitF, hs, bind, Except.bind, pure, Except.pure]
      rw [h1]
      show ss.foldlM fitF (r', acc ++ [p]) = _
      rw [ih r' (acc ++ [p])]
      simp only [threadAll, hs, bind, Except.bind]
      cases threadAll ss r' with
      | error e => rfl
      | ok w => simp [Except.map, pure, Except.pure]

/-- **Bridge (fit).**  `Chain.fit` as regenerated STATEMENT BY STATEMENT from /repo's source text on every run (the initial argument tuple in the
    code's positional order, the loop `for _, step in self.steps: args = step.filter(*args)`) leaves in the steps exactly what threading the
    arguments through the steps leaves: each step fitted on what the previous step's `filter` returned, in list order, whatever the names. -/
theorem gen_chain_fit_eq_model (steps : List Step) (c : List (List Rat)) (d : Data) (w : Option Data) :
    Gen.chainFit steps c d w = (threadAll steps ⟨c, d, w⟩).map (·.2) := by
  have h : Gen.chainFit steps c d w = (do let (_, fitted) ← steps.foldlM fitF (⟨c, d, w⟩, []); pure fitted) := rfl
  rw [h, fit_fold]
  cases threadAll steps ⟨c, d, w⟩ <;> simp [Except.map, pure, Except.pure, bind, Except.bind]

/-- The body of the loop of `Chain.predict`, as generated. -/
def predF (coordinates : List (List Rat)) (result : Option (List Acc)) (step : Option Predictor) : Except Err (Option (List Acc)) := do
  match step with
  | some step_predict => do
      let predicted ← step_predict coordinates
      let result := (match result with
        | none => zerosAcc predicted.length
        | some result => result)
      let result ← predicted.zipIdx.foldlM (fun (result : List Acc) (pi : List Rat × Nat) => do
          let (pred, i) := pi
          pure (setAcc result i (addAcc (← getAcc result i) pred))) result
      pure (some result)
  | none => pure result

theorem gen_chain_predict_unfold (l : List (Option Predictor)) (q : List (List Rat)) :
    Gen.chainPredict l q = (do let result ← l.foldlM (predF q) none; lenAccE result) := rfl

theorem predF_none (q : List (List Rat)) (acc : Option (List Acc)) : predF q acc none = pure acc := rfl

theorem predF_first (q : List (List Rat)) (p : Predictor) :
    predF q none (some p) = (p q).map fun first => some (first.map some) := by
  simp only [predF, bind, Except.bind]
  cases hp : p q with
  | error e => rfl
  | ok first =>
    simp only []
    have := enum_add first (zerosAcc first.length) (by simp [zerosAcc])
    simp only [bind, Except.bind] at this
    rw [this, zipWith_addAcc_zeros]
    rfl

theorem predF_next (q : List (List Rat)) (p : Predictor) (acc : Data) :
    predF q (some (acc.map some)) (some p) = (p q).bind fun pred =>
      if pred.length = acc.length then .ok (some ((dadd acc pred).map some))
      else predF q (some (acc.map some)) (some fun _ => .ok pred) := by
  simp only [predF, bind, Except.bind]
  cases hp : p q with
  | error e => rfl
  | ok pred =>
    simp only []
    by_cases hl : pred.length = acc.length
    · have := enum_add pred (acc.map some) (by simp [hl])
      simp only [bind, Except.bind] at this
      rw [this, zipWith_addAcc_some]
      simp [hl, pure, Except.pure]
    · simp [hl]

theorem fold_skips_none (q : List (List Rat)) (l : List (Option Predictor)) (acc : Option (List Acc)) :
    l.foldlM (predF q) acc = (l.filterMap id).foldlM (fun a p => predF q a (some p)) acc := by
  induction l generalizing acc with
  | nil => rfl
  | cons s rest ih =>
    cases s with
    | none =>
      rw [List.foldlM_cons, predF_none]
      simp only [pure_bind]
      rw [ih]
      simp
    | some p =>
      simp only [List.foldlM_cons, List.filterMap_cons_some, id]
      congr 1
      funext a
      exact ih a

theorem dadd_length (a b : Data) (h : b.length = a.length) : (dadd a b).length = a.length := by
  simp [dadd, h]

/-- The model's accumulation step. -/
def sumF (q : List (List Rat)) (acc : Data) (pk : Predictor) : Except Err Data := do pure (dadd acc (← pk q))

theorem fold_next (q : List (List Rat)) (n : Nat) (rest : List Predictor) (acc : Data) (hacc : acc.length = n)
    (hlen : ∀ p ∈ rest, ∀ r, p q = .ok r → r.length = n) :
    rest.foldlM (fun a p => predF q a (some p)) (some (acc.map some))
      = (rest.foldlM (sumF q) acc).map fun a => some (a.map some) := by
  induction rest generalizing acc with
  | nil => rfl
  | cons p ps ih =>
    rw [List.foldlM_cons, List.foldlM_cons, predF_next]
    cases hp : p q with
    | error e => simp [sumF, hp, Except.bind, bind, Except.map]
    | ok pred =>
      have hl : pred.length = acc.length := by rw [hacc]; exact hlen p (by simp) pred hp
      simp only [sumF, hp, Except.bind, hl, if_true, bind, pure, Except.pure]
      exact ih (dadd acc pred) (by rw [dadd_length acc pred hl, hacc]) (fun p' hp' => hlen p' (by simp [hp']))

/-- **Bridge (predict).**  `Chain.predict` as regenerated STATEMENT BY STATEMENT from /repo's source text on every run (`result = None`, the loop over
    the steps, `hasattr(step, "predict")`, the lazily created `[0 for i in range(len(predicted))]`, the inner loop
    `result[i] = result[i] + pred`, `len(result)`) is the model's component-wise sum of the predictions of the steps that can predict — for
    every list of fitted steps whose predictors agree on the number of components; no predicting step at all is a TypeError in both. -/
theorem gen_chain_predict_eq_model (l : List (Option Predictor)) (q : List (List Rat)) (n : Nat)
    (hlen : ∀ p ∈ l.filterMap id, ∀ r, p q = .ok r → r.length = n) :
    Gen.chainPredict l q = (sumPredictors (l.filterMap id) q).map fun d => d.map some := by
  rw [gen_chain_predict_unfold, fold_skips_none]
  cases hps : l.filterMap id with
  | nil => simp [sumPredictors, lenAccE, bind, Except.bind, pure, Except.pure, Except.map]
  | cons p rest =>
    rw [hps] at hlen
    rw [List.foldlM_cons, predF_first]
    change _ = Except.map (fun d => d.map some) (do let first ← p q; rest.foldlM (sumF q) first)
    cases hp : p q with
    | error e => simp [Except.map, bind, Except.bind]
    | ok first =>
      have hf : first.length = n := hlen p (by simp) first hp
      simp only [Except.map, bind, Except.bind]
      rw [fold_next q n rest first hf (fun p' hp' => hlen p' (by simp [hp']))]
      cases rest.foldlM (sumF q) first <;> simp [Except.map, lenAccE]

/-- **Bridge (fit then predict).**  The regenerated `Chain.fit` followed by the regenerated `Chain.predict` is the model's chain. -/
theorem gen_chain_eq_model (steps : List Step) (c : List (List Rat)) (d : Data) (w : Option Data) (q : List (List Rat)) (n : Nat)
    (hlen : ∀ rf l, threadAll steps ⟨c, d, w⟩ = .ok (rf, l) → ∀ p ∈ l.filterMap id, ∀ r, p q = .ok r → r.length = n) :
    (Gen.chainFit steps c d w >>= fun l => Gen.chainPredict l q)
      = (chainFit steps ⟨c, d, w⟩ >>= fun p => p q).map fun data => data.map some := by
  rw [gen_chain_fit_eq_model]
  unfold chainFit
  rw [chainThread_eq_threadAll]
  cases ht : threadAll steps ⟨c, d, w⟩ with
  | error e => rfl
  | ok v =>
    obtain ⟨rf, l⟩ := v
    simp only [Except.map, bind, Except.bind, pure, Except.pure]
    exact gen_chain_predict_eq_model l q n (hlen rf l ht)

/-- **Bridge (filter).**  `BaseGridder.filter` as regenerated STATEMENT BY STATEMENT from /repo's source text on every run (`self.fit(coordinates,
    data, weights)`, `self.predict(coordinates)`, `datai - predi` over `zip(data, pred)` — operand order read from the source —, and
    `return coordinates, residuals, weights`) is the model's gridder step for every `fit`: the coordinates and weights it was given and the
    data minus the prediction, component by component. -/
theorem gen_gridder_filter_eq_model (fit : Rows → Except Err Predictor) (c : List (List Rat)) (d : Data) (w : Option Data) :
    Gen.gridderFilter fit c d w = (gridderStep fit).filter ⟨c, d, w⟩ := by
  unfold Gen.gridderFilter gridderStep
  rfl

/-! ### Bridges: `Vector.fit` and `Vector.predict` regenerated from source (Gen/VectorComp.lean) -/

/-- **Bridge.**  `Vector.fit` followed by `Vector.predict`, as regenerated from the source, is the model's `vectorFit`: component `i` is fitted on
    `(coordinates, data[i], weights[i])` only and the prediction is the tuple of the components' predictions, in order. -/
theorem gen_vector_eq_model (comps : List (Rows → Except Err Predictor)) (c : List (List Rat)) (d : Data) (w : Option Data) :
    (Gen.vectorFit comps c d w).map (fun fitted => fun q => Gen.vectorPredict fitted q) = vectorFit comps ⟨c, d, w⟩ := by
  unfold Gen.vectorFit vectorFit Gen.vectorPredict
  simp only [bind, Except.bind, pure, Except.pure, Except.map, throw, throwThe, MonadExceptOf.throw]
  by_cases h1 : d.length < 2
  · simp only [h1, if_true]
  · simp only [h1, if_false]
    cases w with
    | none =>
      cases List.mapM (m := Except Err) _ (comps.zip (d.zip _)) <;> rfl
    | some ws =>
      by_cases h2 : (ws.length != d.length) = true
      · simp only [h2, if_true]
      · simp only [h2, if_false]
        cases List.mapM (m := Except Err) _ (comps.zip (d.zip _)) <;> rfl

/-- **No cross-talk, about the source as it is now, for any number of components:** the predictor list `Vector.fit` leaves behind is obtained by
    fitting component `i` on `(coordinates, data[i], weights[i])` — nothing else of the data or the weights reaches it. -/
theorem src_vector_no_crosstalk (comps : List (Rows → Except Err Predictor)) (c : List (List Rat)) (d : Data) (ws : Data)
    (h2 : 2 ≤ d.length) (hw : ws.length = d.length) :
    Gen.vectorFit comps c d (some ws) =
      (comps.zip (d.zip ws)).mapM fun x => x.1 ⟨c, [x.2.1], some [x.2.2]⟩ := by
  unfold Gen.vectorFit
  have h1 : ¬ d.length < 2 := by omega
  simp only [h1, if_false, hw, bne_self_eq_false, Bool.false_eq_true, bind, Except.bind, pure, Except.pure]
  have e1 : d.zip (ws.map some) = (d.zip ws).map (fun p => (p.1, some p.2)) := by
    rw [List.zip_map_right]; rfl
  have e2 : comps.zip ((d.zip ws).map fun p => (p.1, some p.2)) = (comps.zip (d.zip ws)).map (fun x => (x.1, (x.2.1, some x.2.2))) := by
    rw [List.zip_map_right]; rfl
  rw [e1, e2, List.mapM_map]
  rfl

end Verde.C06
