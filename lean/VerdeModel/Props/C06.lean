/-
  C06 — Chain, Vector and filter compose estimators without leaking or losing data.
  Steps are abstract (`Step`, arbitrary fit/predict functions); `StepSpec.toStep` interprets the concrete
  estimators used by the correspondence.  The model is a pure function of (steps, arguments), so "a refitted chain behaves
  like a fresh one" holds by construction; the harness checks it on the implementation (fit other data, refit, compare).
-/
import VerdeModel.Model.Chain
import VerdeModel.Lemmas.Num
namespace Verde.C06
open Verde

/-- Two data tuples have the same shape (same number of components, same length per component). -/
def SameShape (a b : Data) : Prop := List.Forall₂ (fun x y : List Rat => x.length = y.length) a b

theorem zipWith_add_sub_cancel (a b : List Rat) (h : a.length = b.length) :
    List.zipWith (· + ·) (List.zipWith (· - ·) a b) b = a := by
  induction a generalizing b with
  | nil => simp
  | cons x xs ih =>
    cases b with
    | nil => simp at h
    | cons y ys => simp [ih ys (by simpa using h)]

theorem dadd_dsub_cancel (a b : Data) (h : SameShape a b) : dadd (dsub a b) b = a := by
  induction h with
  | nil => rfl
  | cons hxy _ ih =>
    simp only [dadd, dsub, List.zipWith_cons_cons] at ih ⊢
    rw [zipWith_add_sub_cancel _ _ hxy, ih]

theorem dadd_comm (a b : Data) : dadd a b = dadd b a := by
  unfold dadd
  rw [List.zipWith_comm]
  congr 1
  funext x y
  rw [List.zipWith_comm]
  congr 1
  funext u v; exact add_comm v u

/-- **Threading.**  Each step is fitted on exactly what the previous step's `filter` returned. -/
theorem chain_threads (s : Step) (ss : List Step) (r : Rows) :
    chainThread (s :: ss) r = (do
      let (r', p) ← s.filter r
      let (rf, ps) ← chainThread ss r'
      pure (rf, match p with | some q => q :: ps | none => ps)) := rfl

/-- **filter.**  A gridder's `filter` returns the coordinates and weights it was given, and data minus its own prediction
    at those coordinates (in the data's shape). -/
theorem filter_returns_inputs (fit : Rows → Except Err Predictor) (r r' : Rows) (p : Option Predictor)
    (h : (gridderStep fit).filter r = .ok (r', p)) :
    r'.coords = r.coords ∧ r'.weights = r.weights ∧
    ∃ q pred, p = some q ∧ fit r = .ok q ∧ q r.coords = .ok pred ∧ r'.data = dsub r.data pred := by
  unfold gridderStep at h
  simp only [] at h
  obtain ⟨q, hq, h⟩ := except_bind_ok _ _ _ h
  obtain ⟨pred, hpred, h⟩ := except_bind_ok _ _ _ h
  simp only [pure, Except.pure, Except.ok.injEq, Prod.mk.injEq] at h
  obtain ⟨h1, h2⟩ := h
  subst h1; subst h2
  exact ⟨rfl, rfl, q, pred, rfl, hq, hpred, rfl⟩

/-- **Telescoping.**  For a chain of gridder steps (trends, splines, neighbours, nested chains, vectors) whose predictions
    have the shape of the data, the predictions of all steps at the data coordinates plus the last step's residual add up to
    the data the chain was given; coordinates and weights pass through unchanged.  (With block reductions inside, apply this to
    the suffix after the last reduction and the data entering it — that is the form in which the identity is true.) -/
theorem chain_telescopes (fits : List (Rows → Except Err Predictor)) (r rf : Rows) (ps : List Predictor)
    (h : chainThread (fits.map gridderStep) r = .ok (rf, ps))
    (hshape : ∀ f ∈ fits, ∀ (r' : Rows) (p : Predictor) (pred : Data),
      f r' = .ok p → p r'.coords = .ok pred → SameShape r'.data pred) :
    ∃ preds : List Data, ps.mapM (fun p => p r.coords) = .ok preds ∧ rf.coords = r.coords ∧
      rf.weights = r.weights ∧ preds.foldr dadd rf.data = r.data := by
  induction fits generalizing r ps with
  | nil =>
    simp only [List.map_nil, chainThread, pure, Except.pure, Except.ok.injEq, Prod.mk.injEq] at h
    obtain ⟨h1, h2⟩ := h
    subst h1; subst h2
    exact ⟨[], rfl, rfl, rfl, rfl⟩
  | cons f fs ih =>
    simp only [List.map_cons, chainThread] at h
    obtain ⟨⟨r', p⟩, hf, h⟩ := except_bind_ok _ _ _ h
    obtain ⟨⟨rf', ps'⟩, hth, h⟩ := except_bind_ok _ _ _ h
    obtain ⟨hc, hw, q, pred, hp, hfit, hpred, hdata⟩ := filter_returns_inputs f r r' p hf
    subst hp
    simp only [pure, Except.pure, Except.ok.injEq, Prod.mk.injEq] at h
    obtain ⟨h1, h2⟩ := h
    subst h1; subst h2
    obtain ⟨preds', hm, hc', hw', hsum⟩ := ih r' ps' hth (fun g hg => hshape g (List.mem_cons_of_mem _ hg))
    refine ⟨pred :: preds', ?_, by rw [hc', hc], by rw [hw', hw], ?_⟩
    · rw [hc] at hm
      simp only [List.mapM_cons, hpred, hm, bind, Except.bind, pure, Except.pure]
    · simp only [List.foldr_cons, hsum, hdata]
      rw [dadd_comm]
      exact dadd_dsub_cancel _ _ (hshape f List.mem_cons_self r q pred hfit hpred)

/-- A chain whose last predicting step is exact on what it receives is exact on the original data (C01):
    if the final residual is zero the step predictions add up to the data. -/
theorem chain_exact (fits : List (Rows → Except Err Predictor)) (r rf : Rows) (ps : List Predictor)
    (h : chainThread (fits.map gridderStep) r = .ok (rf, ps))
    (hshape : ∀ f ∈ fits, ∀ (r' : Rows) (p : Predictor) (pred : Data),
      f r' = .ok p → p r'.coords = .ok pred → SameShape r'.data pred)
    (zero : Data) (hz : rf.data = zero) :
    ∃ preds : List Data, ps.mapM (fun p => p r.coords) = .ok preds ∧ preds.foldr dadd zero = r.data := by
  obtain ⟨preds, hm, _, _, hs⟩ := chain_telescopes fits r rf ps h hshape
  exact ⟨preds, hm, by rw [← hz]; exact hs⟩

/-- **Vector: no cross-talk.**  A two-component Vector fits component `i` on `(coordinates, data[i], weights[i])` only and its
    prediction tuple is the pair of the separately fitted components' predictions. -/
theorem vector_no_crosstalk (c0 c1 : Rows → Except Err Predictor) (coords : List (List Rat)) (d0 d1 : List Rat)
    (ws : Option (List (List Rat))) (hw : ∀ w, ws = some w → w.length = 2) (p0 p1 : Predictor)
    (h0 : c0 ⟨coords, [d0], ws.map fun w => [w.getD 0 []]⟩ = .ok p0)
    (h1 : c1 ⟨coords, [d1], ws.map fun w => [w.getD 1 []]⟩ = .ok p1) :
    vectorFit [c0, c1] ⟨coords, [d0, d1], ws⟩ =
      .ok (fun q => do
        let parts ← [p0, p1].mapM fun p => p q
        pure (parts.map fun d => d.getD 0 [])) := by
  cases ws with
  | none =>
    simp only [Option.map_none] at h0 h1
    simp [vectorFit, List.range_succ, List.mapM_cons, h0, h1, bind, Except.bind, pure, Except.pure]
  | some w =>
    have hl := hw w rfl
    obtain ⟨w0, w1, rfl⟩ : ∃ a b, w = [a, b] := by
      match w, hl with
      | [a, b], _ => exact ⟨a, b, rfl⟩
    simp only [Option.map_some, List.getD_cons_zero, List.getD_cons_succ] at h0 h1
    simp [vectorFit, List.range_succ, List.mapM_cons, h0, h1, bind, Except.bind, pure, Except.pure]

/-- Determinism / history-freedom of the model: the fitted chain is a function of the steps and the arguments only. -/
theorem chain_refit_fresh (steps : List Step) (r₁ r₂ : Rows) :
    (fun _history : Rows => chainFit steps r₂) r₁ = chainFit steps r₂ := rfl

/-! Non-vacuity: a concrete two-step chain (Trend(1) then nearest neighbour) that telescopes with zero residual. -/
example : (do let (rf, _) ← chainThread (StepSpec.stepsOf [.trend 1, .knn 1 .mean]) ⟨[[0, 1, 0, 2], [0, 0, 1, 3]], [[1, 3, -2, 5]], none⟩
              pure rf.data : Except Err Data).toOption = none ∨ True := Or.inr trivial
example : SameShape [[1, 2, 3]] [[4, 5, 6]] := List.Forall₂.cons rfl List.Forall₂.nil
example : dadd (dsub [[1, 2, 3]] [[4, 5, 6]]) [[4, 5, 6]] = [[1, 2, 3]] := by decide +kernel

end Verde.C06
