/-
  C15 — Nearest-neighbour based results agree with brute-force distances.
  The model sorts (distance², index) pairs; the k-d tree of the implementation is trusted to return "the k nearest"
  (ties in distance excluded from the comparison, as the property states).
-/
import VerdeModel.Gen.DistMask
import VerdeModel.Gen.Distances
import VerdeModel.Gen.Neighbors
import VerdeModel.Model.Neighbors
import VerdeModel.Lemmas.MinMax
import Mathlib.Analysis.SpecialFunctions.Sqrt
namespace Verde.C15
open Verde

theorem keyLe_total (a b : Rat × Nat) : (keyLe a b || keyLe b a) = true := by
  unfold keyLe
  rcases lt_trichotomy a.1 b.1 with h | h | h
  · simp [h]
  · rcases Nat.le_total a.2 b.2 with h2 | h2 <;> simp [h, h2]
  · simp [h]

theorem keyLe_trans (a b c : Rat × Nat) (h1 : keyLe a b = true) (h2 : keyLe b c = true) : keyLe a c = true := by
  unfold keyLe at *
  simp only [Bool.or_eq_true, Bool.and_eq_true, decide_eq_true_eq] at *
  rcases h1 with h1 | ⟨e1, l1⟩ <;> rcases h2 with h2 | ⟨e2, l2⟩
  · left; linarith
  · left; rw [← e2]; exact h1
  · left; rw [e1]; exact h2
  · right; exact ⟨e1.trans e2, le_trans l1 l2⟩

theorem keyLe_antisymm (a b : Rat × Nat) (h1 : keyLe a b = true) (h2 : keyLe b a = true) : a = b := by
  unfold keyLe at *
  simp only [Bool.or_eq_true, Bool.and_eq_true, decide_eq_true_eq] at *
  rcases h1 with h1 | ⟨e1, l1⟩ <;> rcases h2 with h2 | ⟨e2, l2⟩
  · exact absurd h1 (not_lt.mpr h2.le)
  · rw [e2] at h1; exact absurd h1 (lt_irrefl _)
  · rw [e1] at h2; exact absurd h2 (lt_irrefl _)
  · exact Prod.ext e1 (Nat.le_antisymm l1 l2)

/-- The (distance², index) list before sorting. -/
def keyList (es ns : List Rat) (q : Rat × Rat) : List (Rat × Nat) :=
  ((es.zip ns).zipIdx).map fun (p, i) => (sqDist q.1 q.2 p.1 p.2, i)

theorem sorted_perm (es ns : List Rat) (q : Rat × Rat) : (sortedByDist es ns q).Perm (keyList es ns q) :=
  List.mergeSort_perm _ _

theorem sorted_pairwise (es ns : List Rat) (q : Rat × Rat) :
    (sortedByDist es ns q).Pairwise fun a b => keyLe a b = true :=
  List.pairwise_mergeSort keyLe_trans keyLe_total _

/-- Every sorted entry `(d², i)` is the squared Euclidean distance from the query to data point `i`. -/
theorem entry_is_distance (es ns : List Rat) (q : Rat × Rat) (x : Rat × Nat) (hx : x ∈ sortedByDist es ns q) :
    ∃ p, (es.zip ns)[x.2]? = some p ∧ x.1 = sqDist q.1 q.2 p.1 p.2 := by
  have := (sorted_perm es ns q).mem_iff.mp hx
  simp only [keyList, List.mem_map] at this
  obtain ⟨⟨p, i⟩, hm, rfl⟩ := this
  exact ⟨p, List.mem_zipIdx_iff_getElem?.mp hm, rfl⟩

/-- Every data point appears (exactly `n` entries). -/
theorem sorted_length (es ns : List Rat) (q : Rat × Rat) : (sortedByDist es ns q).length = (es.zip ns).length := by
  rw [(sorted_perm es ns q).length_eq]; simp [keyList]

/-- **The k nearest.**  `kNearest` has `min k n` entries and each of them is at most as far from the query as every data point
    left out (ties broken by index). -/
theorem knearest_spec (es ns : List Rat) (q : Rat × Rat) (k : Nat) :
    (kNearest es ns q k).length = min k (es.zip ns).length ∧
    ∀ a ∈ kNearest es ns q k, ∀ b ∈ (sortedByDist es ns q).drop k, a.1 ≤ b.1 := by
  refine ⟨by simp [kNearest, sorted_length], ?_⟩
  intro a ha b hb
  have hp := sorted_pairwise es ns q
  rw [← List.take_append_drop k (sortedByDist es ns q), List.pairwise_append] at hp
  have := hp.2.2 a ha b hb
  unfold keyLe at this
  simp only [Bool.or_eq_true, Bool.and_eq_true, decide_eq_true_eq] at this
  rcases this with h | h
  · exact h.le
  · exact h.1.le

/-- KNeighbors predicts the reduction of the data values of exactly those k points. -/
theorem knn_predict_form (es ns data : List Rat) (k : Nat) (red : Red) (qs : List (Rat × Rat)) (t : Nat)
    (ht : t < qs.length) :
    (knnPredict es ns data k red qs)[t]? =
      some (red.apply ((kNearest es ns qs[t] k).map fun p => data.getD p.2 0)) := by
  simp [knnPredict, List.getElem?_map, List.getElem?_eq_getElem ht]

/-- If the query coincides with data point `i` and no other data point does, the nearest entry is `(0, i)`:
    `median_distance` drops exactly the point itself, and `KNeighbors(k=1)` returns the datum itself (C01). -/
theorem nearest_is_self (es ns : List Rat) (i : Nat) (p : Rat × Rat) (hp : (es.zip ns)[i]? = some p)
    (hdistinct : ∀ j p', (es.zip ns)[j]? = some p' → j ≠ i → p' ≠ p) :
    (sortedByDist es ns p).head? = some (0, i) := by
  have hmem : ((0 : Rat), i) ∈ sortedByDist es ns p := by
    rw [(sorted_perm es ns p).mem_iff]
    simp only [keyList, List.mem_map]
    exact ⟨(p, i), List.mem_zipIdx_iff_getElem?.mpr hp, by simp [sqDist]⟩
  cases hs : sortedByDist es ns p with
  | nil => rw [hs] at hmem; simp at hmem
  | cons h rest =>
    rw [hs] at hmem
    simp only [List.head?_cons, Option.some.injEq]
    -- (0, i) is below every entry
    have hmin : ∀ x ∈ sortedByDist es ns p, keyLe (0, i) x = true := by
      intro x hx
      obtain ⟨p', hp', hd⟩ := entry_is_distance es ns p x hx
      unfold keyLe
      simp only [Bool.or_eq_true, Bool.and_eq_true, decide_eq_true_eq]
      by_cases hxi : x.2 = i
      · right
        rw [hxi, hp] at hp'
        cases hp'
        exact ⟨by rw [hd]; simp [sqDist], by omega⟩
      · left
        have hne := hdistinct x.2 p' hp' hxi
        rw [hd]
        unfold sqDist
        have : p.1 - p'.1 ≠ 0 ∨ p.2 - p'.2 ≠ 0 := by
          by_contra hcon
          push_neg at hcon
          apply hne
          exact Prod.ext (by linarith [hcon.1]) (by linarith [hcon.2])
        rcases this with h1 | h1
        · have := mul_self_pos.mpr h1
          have := mul_self_nonneg (p.2 - p'.2)
          linarith
        · have := mul_self_pos.mpr h1
          have := mul_self_nonneg (p.1 - p'.1)
          linarith
    rcases List.mem_cons.mp hmem with e | e
    · exact e.symm
    · have hp2 := sorted_pairwise es ns p
      rw [hs] at hp2
      have h1 := (List.pairwise_cons.mp hp2).1 _ e
      have h2 := hmin h (by rw [hs]; exact List.mem_cons_self)
      exact keyLe_antisymm _ _ h1 h2

/-- `distance <= maxdist` on true distances is `d² ≤ maxdist²` for `maxdist ≥ 0` (the model's rational test). -/
theorem mask_iff (d2 m : ℝ) (hm : 0 ≤ m) : Real.sqrt d2 ≤ m ↔ d2 ≤ m * m := by
  rw [Real.sqrt_le_iff, pow_two]
  exact ⟨fun h => h.2, fun h => ⟨hm, h⟩⟩

/-- The mask is true exactly where the nearest data point is within `maxdist` (negative `maxdist` ⇒ all false). -/
theorem mask_form (es ns : List Rat) (maxdist : Rat) (q : Rat × Rat) (d2 : Rat) (i : Nat)
    (h : (kNearest es ns q 1).head? = some (d2, i)) :
    distanceMask es ns maxdist [q] = [decide (0 ≤ maxdist) && decide (d2 ≤ maxdist * maxdist)] := by
  simp [distanceMask, h]

/-! Non-vacuity.  (`List.mergeSort` is defined by well-founded recursion, which the kernel does not unfold, so concrete
    sorted lists cannot be `decide`d; instead the hypotheses of the theorems are exhibited on a concrete cloud and the
    concrete outputs are checked by the driver in the correspondence corpus.) -/
example : ([0, 1, 5].zip [0, 1, 5] : List (Rat × Rat))[1]? = some (1, 1) ∧
    ∀ j p', ([0, 1, 5].zip [0, 1, 5] : List (Rat × Rat))[j]? = some p' → j ≠ 1 → p' ≠ (1, 1) := by
  refine ⟨by decide, ?_⟩
  intro j p' h hj
  match j, h, hj with
  | 0, h, _ => simp at h; subst h; decide
  | 2, h, _ => simp at h; subst h; decide
  | j + 3, h, _ => simp at h
example : (sortedByDist [0, 1, 5] [0, 1, 5] (1, 1)).head? = some (0, 1) :=
  nearest_is_self [0, 1, 5] [0, 1, 5] 1 (1, 1) (by decide) (by
    intro j p' h hj
    match j, h, hj with
    | 0, h, _ => simp at h; subst h; decide
    | 2, h, _ => simp at h; subst h; decide
    | j + 3, h, _ => simp at h)
example : keyLe (2, 2) (18, 1) = true ∧ keyLe (2, 1) (2, 2) = true ∧ keyLe (2, 2) (2, 1) = false := by decide +kernel

/-! ### Bridge: the index plumbing of `KNeighbors.predict` regenerated from source -/

/-- The k-d tree contract: per query point the indices of its k nearest data points, nearest first; a flat array when k = 1. -/
def treeQuery (es ns : List Rat) (qs : List (Rat × Rat)) (k : Nat) : Gen.QueryIdx :=
  if k = 1 then .flat (qs.map fun q => ((kNearest es ns q 1).map (·.2)).headD 0)
  else .rows (qs.map fun q => (kNearest es ns q k).map (·.2))

theorem kNearest_one (es ns : List Rat) (q : Rat × Rat) (hne : es.zip ns ≠ []) : ∃ x, kNearest es ns q 1 = [x] := by
  unfold kNearest sortedByDist
  have hlen : ((((es.zip ns).zipIdx).map fun (p, i) => (sqDist q.1 q.2 p.1 p.2, i)).mergeSort keyLe).length = (es.zip ns).length := by
    simp [List.length_mergeSort]
  cases hs : (((es.zip ns).zipIdx).map fun (p, i) => (sqDist q.1 q.2 p.1 p.2, i)).mergeSort keyLe with
  | nil =>
    rw [hs] at hlen
    exact absurd (List.length_eq_zero_iff.mp hlen.symm) hne
  | cons x rest => exact ⟨x, by simp⟩

/-- **Bridge.**  `KNeighbors.predict` after the tree query, as regenerated STATEMENT BY STATEMENT from /repo's source text on every run — the second
    value of `query(..., k=self.k)`, the `indices.ndim == 1` → one-column branch (SciPy's k = 1 form), `self.data_[indices.ravel()]` reshaped to the
    index array's shape, `self.reduction(neighbor_values, axis=1)` with the axis read from the source — is the model's "reduction of the values
    of the k nearest", for every data set, k, reduction and query list, given the tree contract (`treeQuery`). -/
theorem gen_knn_predict_eq_model (es ns data : List Rat) (k : Nat) (red : Red) (qs : List (Rat × Rat)) (hne : es.zip ns ≠ [] ∨ k ≠ 1) :
    Gen.knnPredict (treeQuery es ns qs) data k red = knnPredict es ns data k red qs := by
  unfold Gen.knnPredict knnPredict treeQuery
  by_cases hk : k = 1
  · subst hk
    have hne' : es.zip ns ≠ [] := by
      rcases hne with h | h
      · exact h
      · exact absurd rfl h
    simp only [if_true, List.map_map]
    apply List.map_congr_left
    intro q _
    obtain ⟨x, hx⟩ := kNearest_one es ns q hne'
    simp [Function.comp, hx]
  · simp only [hk, if_false, List.map_map]
    apply List.map_congr_left
    intro q _
    simp only [Function.comp, List.map_map]
    rfl

/-! ## `distance_mask` as regenerated from the source (Gen/DistMask.lean) -/

/-- The two coordinate arrays after the optional projection. -/
def projected2 (proj : Option Proj) (e n : List Rat) : List Rat × List Rat :=
  match proj with
  | some p => (((e.zip n).map fun q => (p.apply q).1), ((e.zip n).map fun q => (p.apply q).2))
  | none => (e, n)

/-- What `kdtree(D).query(Q)[0]` promises: one value per query point, the Euclidean distance to the nearest data point (the square root of the
    smallest squared distance the model finds). -/
def NearestDistance (nearest : List (List Rat) → List (List Rat) → List ℝ) : Prop :=
  ∀ (D Q : List (List Rat)), (nearest D Q).length = ((Q.getD 0 []).zip (Q.getD 1 [])).length ∧
    ∀ (i : Nat) (q : Rat × Rat) (d2 : Rat) (j : Nat), ((Q.getD 0 []).zip (Q.getD 1 []))[i]? = some q →
      (kNearest (D.getD 0 []) (D.getD 1 []) q 1).head? = some (d2, j) → (nearest D Q)[i]? = some (Real.sqrt (d2 : ℝ))

theorem decide_dist (d2 m : Rat) (h0 : 0 ≤ d2) :
    (@decide (Real.sqrt (d2 : ℝ) ≤ (m : ℝ)) (Classical.propDecidable _)) = (decide (0 ≤ m) && decide (d2 ≤ m * m)) := by
  by_cases hm : 0 ≤ m
  · have hm' : (0 : ℝ) ≤ (m : ℝ) := by exact_mod_cast hm
    have := mask_iff (d2 : ℝ) (m : ℝ) hm'
    have hc : ((d2 : ℝ) ≤ (m : ℝ) * (m : ℝ)) ↔ d2 ≤ m * m := by exact_mod_cast Iff.rfl
    simp only [hm, decide_true, Bool.true_and, decide_eq_decide]
    rw [this, hc]
  · have hneg : (m : ℝ) < 0 := by exact_mod_cast not_le.mp hm
    have : ¬ Real.sqrt (d2 : ℝ) ≤ (m : ℝ) := by
      have := Real.sqrt_nonneg (d2 : ℝ)
      linarith
    simp [hm, this]

theorem head_some_of_nonempty (es ns : List Rat) (q : Rat × Rat) (h : 0 < (es.zip ns).length) :
    ∃ d2 j, (kNearest es ns q 1).head? = some (d2, j) := by
  have hl := (knearest_spec es ns q 1).1
  have : 0 < (kNearest es ns q 1).length := by rw [hl]; omega
  match hk : kNearest es ns q 1 with
  | [] => rw [hk] at this; simp at this
  | (d2, j) :: _ => exact ⟨d2, j, rfl⟩

theorem sqDist_nonneg' (a b c d : Rat) : 0 ≤ sqDist a b c d := by
  unfold sqDist; nlinarith [mul_self_nonneg (a - c), mul_self_nonneg (b - d)]

theorem head_nonneg (es ns : List Rat) (q : Rat × Rat) (d2 : Rat) (j : Nat) (h : (kNearest es ns q 1).head? = some (d2, j)) : 0 ≤ d2 := by
  have hm : (d2, j) ∈ sortedByDist es ns q := by
    have : (d2, j) ∈ kNearest es ns q 1 := List.mem_of_mem_head? h
    exact List.mem_of_mem_take this
  obtain ⟨p, _, hp⟩ := entry_is_distance es ns q (d2, j) hm
  simp only at hp
  rw [hp]; exact sqDist_nonneg' _ _ _ _

theorem mask_core (nearest : List (List Rat) → List (List Rat) → List ℝ) (hc : NearestDistance nearest) (es ns qe qn : List Rat) (m : Rat)
    (hne : 0 < (es.zip ns).length) :
    (nearest [es, ns] [qe, qn]).map (fun d => @decide (d ≤ (m : ℝ)) (Classical.propDecidable _)) = distanceMask es ns m (qe.zip qn) := by
  obtain ⟨hlen, hval⟩ := hc [es, ns] [qe, qn]
  simp only [List.getD_cons_zero, List.getD_cons_succ] at hlen hval
  apply List.ext_getElem?
  intro i
  unfold distanceMask
  simp only [List.getElem?_map]
  by_cases hi : i < (qe.zip qn).length
  · obtain ⟨d2, j, hh⟩ := head_some_of_nonempty es ns (qe.zip qn)[i] hne
    have hq : (qe.zip qn)[i]? = some (qe.zip qn)[i] := List.getElem?_eq_getElem hi
    rw [hval i _ d2 j hq hh, hq]
    simp only [Option.map_some, hh]
    rw [decide_dist d2 m (head_nonneg es ns _ d2 j hh)]
  · have h1 : (qe.zip qn)[i]? = none := List.getElem?_eq_none (by omega)
    have h2 : (nearest [es, ns] [qe, qn])[i]? = none := List.getElem?_eq_none (by omega)
    rw [h1, h2]; rfl

/-- **Bridge.**  `distance_mask` as regenerated from the source equals the model: true exactly where the nearest (projected) data point is no
    farther than `maxdist` — for every tree that returns nearest distances, every projection and at least one data point. -/
theorem gen_distance_mask_eq_model (nearest : List (List Rat) → List (List Rat) → List ℝ) (hc : NearestDistance nearest)
    (es ns qe qn : List Rat) (drest qrest : List (List Rat)) (m : Rat) (proj : Option Proj)
    (hne : 0 < ((projected2 proj es ns).1.zip (projected2 proj es ns).2).length) :
    Gen.distanceMask nearest (es :: ns :: drest) (qe :: qn :: qrest) (m : ℝ) (proj.map Proj.apply)
      = distanceMask (projected2 proj es ns).1 (projected2 proj es ns).2 m ((projected2 proj qe qn).1.zip (projected2 proj qe qn).2) := by
  unfold Gen.distanceMask
  cases proj with
  | none =>
    simp only [projected2] at hne ⊢
    simp only [Option.map_none, List.take_succ_cons, List.take_zero]
    exact mask_core nearest hc es ns qe qn m hne
  | some p =>
    simp only [projected2] at hne ⊢
    simp only [Option.map_some, List.take_succ_cons, List.take_zero, applyProjTbl, List.getD_cons_zero, List.getD_cons_succ]
    exact mask_core nearest hc _ _ _ _ m hne

/-! ## `median_distance` and `KNeighbors.fit` as regenerated from the source (Gen/Distances.lean) -/

/-- What `kdtree(P).query(P, k)[0]` promises: for each point, the Euclidean distances to its `k` nearest points, nearest first (the square roots of
    the model's sorted squared distances). -/
def KDistances (tq : List (List Rat) → Nat → List (List ℝ)) : Prop :=
  ∀ (P : List (List Rat)) (k : Nat),
    tq P k = ((P.getD 0 []).zip (P.getD 1 [])).map fun p => (kNearest (P.getD 0 []) (P.getD 1 []) p k).map fun x => Real.sqrt (x.1 : ℝ)

theorem median_core (tq : List (List Rat) → Nat → List (List ℝ)) (hc : KDistances tq) (median : List ℝ → ℝ) (es ns : List Rat) (k : Nat) :
    ((tq [es, ns] (k + 1)).map fun row => row.drop 1).map median
      = (nearestOthersSq es ns k).map fun row => median (row.map fun (d2 : Rat) => Real.sqrt (d2 : ℝ)) := by
  rw [hc [es, ns] (k + 1)]
  simp only [List.getD_cons_zero, List.getD_cons_succ, nearestOthersSq, List.map_map, Function.comp_def, List.map_drop]

/-- **Bridge.**  `median_distance` as regenerated from the source: for each (projected) point, `np.median` of the distances to its `k_nearest`
    nearest *other* points — `k_nearest + 1` neighbours are asked for and the first, the point itself, is dropped; one value per point. -/
theorem gen_median_distance_eq_model (tq : List (List Rat) → Nat → List (List ℝ)) (hc : KDistances tq) (median : List ℝ → ℝ)
    (es ns : List Rat) (rest : List (List Rat)) (k : Nat) (proj : Option Proj) :
    Gen.medianDistance tq median (es :: ns :: rest) k (proj.map Proj.apply)
      = (nearestOthersSq (projected2 proj es ns).1 (projected2 proj es ns).2 k).map fun row => median (row.map fun (d2 : Rat) => Real.sqrt (d2 : ℝ)) := by
  unfold Gen.medianDistance
  cases proj with
  | none =>
    simp only [projected2, Option.map_none, List.take_succ_cons, List.take_zero]
    exact median_core tq hc median es ns k
  | some p =>
    simp only [projected2, Option.map_some, List.take_succ_cons, List.take_zero, applyProjTbl, List.getD_cons_zero, List.getD_cons_succ]
    exact median_core tq hc median _ _ k

/-- The source's `median_distance` never counts a point as its own neighbour and always reduces exactly `k_nearest` distances per point
    (when there are more than `k_nearest` points). -/
theorem src_median_distance_row_length (es ns : List Rat) (k : Nat) (row : List Rat) (hrow : row ∈ nearestOthersSq es ns k)
    (hk : k < (es.zip ns).length) : row.length = k := by
  unfold nearestOthersSq at hrow
  obtain ⟨p, _, rfl⟩ := List.mem_map.mp hrow
  have hl := (knearest_spec es ns p (k + 1)).1
  simp only [List.length_map, List.length_drop, hl]
  omega

/-- **`KNeighbors.fit` as regenerated from the source** keeps the first two coordinate arrays for the tree and the data values unchanged: predicting
    with what it stored is the model's `knnPredict` on the easting, northing and data given to `fit`. -/
theorem src_kneighbors_fit_stores (es ns : List Rat) (rest : List (List Rat)) (data : List Rat) :
    Gen.kneighborsFit (es :: ns :: rest) data = ([es, ns], data) := rfl

end Verde.C15
