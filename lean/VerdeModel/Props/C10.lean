/-
  C10 — BlockMean outputs means and (0,1] weights by the documented rule; variance_to_weights.
  `none` in a variance list models NaN.  "Does not modify its inputs" is a fact about Python objects: it is observed by the
  correspondence harness (arrays compared before/after, read-only inputs), not provable in a pure model.
-/
import VerdeModel.Gen.BlockMean
import VerdeModel.Props.C09
import VerdeModel.Lemmas.Group
import VerdeModel.Gen.Utils
namespace Verde.C10
open Verde

theorem listMin_none_iff (xs : List Rat) : listMin xs = none ↔ xs = [] := by
  cases xs <;> simp [listMin]

theorem v2w_shape (vars : List (Option Rat)) (tol : Rat) : (varianceToWeights vars tol).length = vars.length := by
  simp [varianceToWeights]

/-- Smallest variance above the tolerance (0 if there is none). -/
def minAbove (vars : List (Option Rat)) (tol : Rat) : Rat :=
  (listMin ((vars.map fun o => o.getD 0).filter fun x => decide (x > tol))).getD 0

/-- The documented rule: `min-positive-variance / variance` above the tolerance, `1` at or below it and for NaN. -/
theorem v2w_formula (vars : List (Option Rat)) (tol : Rat) (i : Nat) (hi : i < vars.length) :
    (varianceToWeights vars tol)[i]? =
      some (if (vars[i].getD 0) > tol then minAbove vars tol / (vars[i].getD 0) else 1) := by
  simp [varianceToWeights, minAbove, List.getElem?_map, List.getElem?_eq_getElem hi]

theorem minAbove_spec (vars : List (Option Rat)) (tol : Rat) (x : Rat)
    (hx : x ∈ vars.map fun o => o.getD 0) (hgt : x > tol) :
    minAbove vars tol > tol ∧ minAbove vars tol ≤ x ∧ minAbove vars tol ∈ vars.map fun o => o.getD 0 := by
  have hxin : x ∈ (vars.map fun o => o.getD 0).filter fun x => decide (x > tol) := by
    simp only [List.mem_filter, decide_eq_true_eq]; exact ⟨hx, hgt⟩
  obtain ⟨m, hm⟩ := listMin_isSome (List.ne_nil_of_mem hxin)
  have hmem := listMin_mem hm
  have hmtol : m > tol := by
    have := (List.mem_filter.mp hmem).2; simpa using this
  unfold minAbove
  rw [hm]
  exact ⟨hmtol, listMin_le hm x hxin, (List.mem_filter.mp hmem).1⟩

/-- Every weight lies in `(0, 1]`. -/
theorem v2w_range (vars : List (Option Rat)) (tol : Rat) (htol : 0 ≤ tol) :
    ∀ w ∈ varianceToWeights vars tol, 0 < w ∧ w ≤ 1 := by
  intro w hw
  simp only [varianceToWeights, List.mem_map] at hw
  obtain ⟨x, hx, rfl⟩ := hw
  split_ifs with hgt
  · obtain ⟨h1, h2, _⟩ := minAbove_spec vars tol x (by simpa using hx) hgt
    have hxpos : 0 < x := by linarith
    unfold minAbove at h1 h2
    exact ⟨div_pos (by linarith) hxpos, (div_le_one hxpos).mpr h2⟩
  · norm_num

/-- At least one weight equals 1. -/
theorem v2w_has_one (vars : List (Option Rat)) (tol : Rat) (htol : 0 ≤ tol) (hne : vars ≠ []) :
    (1 : Rat) ∈ varianceToWeights vars tol := by
  by_cases hall : ∀ x ∈ vars.map (fun o => o.getD 0), ¬ x > tol
  · obtain ⟨o, os, rfl⟩ := List.exists_cons_of_ne_nil hne
    simp only [varianceToWeights, List.mem_map]
    exact ⟨o.getD 0, ⟨o, List.mem_cons_self, rfl⟩, by simp [hall (o.getD 0) (by simp)]⟩
  · push_neg at hall
    obtain ⟨x, hx, hgt⟩ := hall
    obtain ⟨h1, _, h3⟩ := minAbove_spec vars tol x hx hgt
    simp only [varianceToWeights, List.mem_map]
    refine ⟨minAbove vars tol, by simpa using h3, ?_⟩
    have hpos : 0 < minAbove vars tol := lt_of_le_of_lt htol h1
    unfold minAbove at h1 hpos ⊢
    rw [if_pos h1, div_self (ne_of_gt hpos)]

/-- NaN variances get weight 1 (for a non-negative tolerance). -/
theorem v2w_nan_weight_one (vars : List (Option Rat)) (tol : Rat) (htol : 0 ≤ tol) (i : Nat) (hi : i < vars.length)
    (hnan : vars[i] = none) : (varianceToWeights vars tol)[i]? = some 1 := by
  rw [v2w_formula vars tol i hi, hnan]
  have : ¬ ((0 : Rat) > tol) := not_lt.mpr htol
  simp [this]

/-- The default tolerance is non-negative (so the theorems above apply to the default call). -/
theorem default_tol_nonneg : 0 ≤ v2wTol := by decide +kernel

/-- Uncertainty propagation without weights is rejected. -/
theorem uncertainty_requires_weights (coords data : List (List Rat)) (b : BlockSpec) (centre drop : Bool) :
    blockMean coords data none b centre drop true = .error .valueError := by
  simp [blockMean, bind, Except.bind]

/-- Without input weights: per block the mean of its members and a weight
    `variance_to_weights(population variance of the members)`. -/
theorem blockmean_unweighted_form (coords data : List (List Rat)) (b : BlockSpec) (centre drop : Bool)
    (centres : List (Rat × Rat)) (labels : List Nat)
    (hs : blockSplit (coords.getD 0 []) (coords.getD 1 []) b = .ok (centres, labels)) :
    (blockMean coords data none b centre drop false).map (·.2) = .ok (
      data.map (fun d => (groupKeys (max centres.length (labelBound labels)) labels).map fun k =>
        mean (groupMembers labels d k)),
      data.map (fun d => varianceToWeights
        (((groupKeys (max centres.length (labelBound labels)) labels).map fun k =>
          pvariance (groupMembers labels d k)).map some))) := by
  unfold blockMean
  simp only [hs, bind, Except.bind, pure, Except.pure, Option.isNone_none, Bool.and_false, Bool.false_eq_true,
    if_false, List.map_map, Except.map]
  simp [Function.comp]

/-- With uncertainty propagation the variance of a block is `1/Σw`, so for variances above the tolerance the output weight is
    the block's weight sum times a common factor — proportional to the sum of the input weights in the block. -/
theorem v2w_of_inverse_sums (sums : List Rat) (tol : Rat) :
    ∃ m : Rat, ∀ j (hj : j < sums.length), 1 / sums[j] > tol →
        (varianceToWeights (sums.map fun s => some (1 / s)) tol)[j]? = some (m * sums[j]) := by
  refine ⟨minAbove (sums.map fun s => some (1 / s)) tol, ?_⟩
  intro j hj hjab
  have hlen : j < (sums.map fun s => some (1 / s)).length := by simpa using hj
  rw [v2w_formula _ tol j hlen]
  simp only [List.getElem_map, Option.getD_some, hjab, if_true]
  congr 1
  rw [one_div, div_inv_eq_mul]

/-- **Bridge.**  The body of `variance_to_weights`' per-component loop as regenerated from /repo's source text on every run
    (`nan_to_num`, `ones_like`, the mask `var > tol`, the guard `if np.any(mask)`, the masked minimum and the masked
    assignment, read element-wise) equals the model's `varianceToWeights` for every variance list (NaN = `none`) and tolerance. -/
theorem gen_v2w_comp_eq_model (var : List (Option Rat)) (tol : Rat) :
    Gen.varianceToWeightsComp var tol = varianceToWeights var tol := by
  unfold Gen.varianceToWeightsComp varianceToWeights
  simp only [List.map_map]
  have hfilter : (var.map fun o => o.getD 0).filter (fun x => decide (x > tol))
      = (var.filter (fun x => decide (x.getD 0 > tol))).map (fun x => x.getD 0) := by
    rw [List.filter_map]; rfl
  rw [hfilter]
  apply List.map_congr_left
  intro x hx
  simp only [Function.comp]
  by_cases hany : (var.any fun x => decide (x.getD 0 > tol)) = true
  · simp only [hany, if_true]
  · have hx' : ¬ (x.getD 0 > tol) := by
      intro h
      apply hany
      simp only [List.any_eq_true, decide_eq_true_eq]
      exact ⟨x, hx, h⟩
    simp only [hany, hx', if_false]
    simp

/-- The loop/return skeleton: one output per component, each computed by the same rule with the same tolerance. -/
theorem gen_v2w_components (variance : List (List (Option Rat))) (tol : Rat) :
    Gen.varianceToWeights variance tol = variance.map (fun var => varianceToWeights var tol) := by
  unfold Gen.varianceToWeights
  apply List.map_congr_left
  intro v _
  exact gen_v2w_comp_eq_model v tol

/-! Non-vacuity -/
example : varianceToWeights [some 0, some 2, none, some 4] = [1, 1, 1, 1/2] := by decide +kernel
example : (blockMean [[1/2, 3/2, 5/2, 7/2], [1/2, 1/2, 3/2, 3/2]] [[1, 3, 3, 7]] none
    ⟨some [0, 4, 0, 2], none, some [2, 2], .spacing⟩ false true false).toOption
    = some ([[1, 3], [1/2, 3/2]], [[2, 5]], [[1, 1/4]]) := by decide +kernel

/-! ### The regenerated source satisfies the property -/
/-- The translated loop body of `variance_to_weights`: weights in (0, 1], one of them 1, NaN ↦ 1, same length. -/
theorem src_v2w (var : List (Option Rat)) (tol : Rat) (htol : 0 ≤ tol) :
    (Gen.varianceToWeightsComp var tol).length = var.length ∧
    (∀ w ∈ Gen.varianceToWeightsComp var tol, 0 < w ∧ w ≤ 1) ∧
    (var ≠ [] → (1 : Rat) ∈ Gen.varianceToWeightsComp var tol) ∧
    (∀ i (hi : i < var.length), var[i] = none → (Gen.varianceToWeightsComp var tol)[i]? = some 1) := by
  rw [gen_v2w_comp_eq_model]
  exact ⟨v2w_shape var tol, v2w_range var tol htol, v2w_has_one var tol htol, fun i hi h => v2w_nan_weight_one var tol htol i hi h⟩

/-! ## `BlockMean.filter` as regenerated (pinned) from the source (Gen/BlockMean.lean) -/

/-- **Bridge.**  `BlockMean.filter` with its three aggregation helpers, as regenerated (pinned) from the source, is the model's `blockMean`: per
    non-empty block the (weighted) mean, and a variance that is the population variance of the members (no weights), `1 / Σw` (uncertainty
    propagation) or the weighted variance about the weighted mean — turned into weights by `variance_to_weights`. -/
theorem gen_block_mean_eq_model (coords data : List (List Rat)) (weights : Option (List (List Rat))) (b : BlockSpec) (centre drop unc : Bool) :
    blockMean coords data weights b centre drop unc =
      Gen.blockMeanFilter ⟨none, centre, drop⟩ unc (blockSplit (coords.getD 0 []) (coords.getD 1 []) b) coords data weights := by
  unfold blockMean Gen.blockMeanFilter
  by_cases hu : (weights.isNone && unc) = true
  · simp only [hu, if_true, bind, Except.bind, throw, throwThe, MonadExceptOf.throw]
  · simp only [hu, if_false, bind, Except.bind, Bool.false_eq_true]
    cases hs : blockSplit (coords.getD 0 []) (coords.getD 1 []) b with
    | error e => rfl
    | ok v =>
      obtain ⟨centres, labels⟩ := v
      simp only [C09.gen_block_coordinates_eq_model, gen_v2w_comp_eq_model]
      cases weights with
      | none =>
        simp [pure, Except.pure, Gen.blockedMeanVariance, groupAgg, ReduceSpec.fn]
      | some ws =>
        cases unc with
        | true =>
          simp only [if_true, Gen.blockedMeanUncertainty, groupAggW, bind, Except.bind, pure, Except.pure]
          simp only [ReduceSpec.fn, throw, throwThe, MonadExceptOf.throw]
          cases List.mapM (m := Except Err) _ (data.zip ws) with
          | error e => rfl
          | ok v => 
            simp only []
            cases List.mapM (m := Except Err) _ (data.zip ws) <;> rfl
        | false =>
          simp only [Bool.false_eq_true, if_false, Gen.blockedMeanVarianceWeighted, groupAggW, bind, Except.bind, pure, Except.pure, ReduceSpec.fn]
          cases List.mapM (m := Except Err) _ (data.zip ws) with
          | error e => rfl
          | ok v => 
            simp only []
            cases List.mapM (m := Except Err) _ (data.zip ws) <;> rfl

end Verde.C10
