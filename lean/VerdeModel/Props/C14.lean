/-
  C14 — Rolling and expanding windows select exactly the points inside each window.
-/
import VerdeModel.Gen.Windows
import VerdeModel.Model.Windows
import VerdeModel.Lemmas.Coords
import VerdeModel.Lemmas.MinMax
import VerdeModel.Props.C08
namespace Verde.C14
open Verde

/-- Window membership: index `i` is selected iff point `i` lies in the closed square of half-width `half`. -/
theorem window_membership_iff (es ns : List Rat) (cx cy half : Rat) (i : Nat) :
    i ∈ windowIdx es ns cx cy half ↔
      i < es.length ∧ |es.getD i 0 - cx| ≤ half ∧ |ns.getD i 0 - cy| ≤ half := by
  simp [windowIdx, ratAbs_eq_abs]

/-- Indices are valid, ascending and without repetition; an empty window gives the empty list. -/
theorem window_indices_valid (es ns : List Rat) (cx cy half : Rat) :
    (∀ i ∈ windowIdx es ns cx cy half, i < es.length) ∧ (windowIdx es ns cx cy half).Pairwise (· < ·) := by
  constructor
  · intro i hi; exact ((window_membership_iff es ns cx cy half i).mp hi).1
  · unfold windowIdx; exact List.Pairwise.filter _ List.pairwise_lt_range

theorem empty_window (es ns : List Rat) (cx cy half : Rat)
    (h : ∀ i, i < es.length → ¬ (|es.getD i 0 - cx| ≤ half ∧ |ns.getD i 0 - cy| ≤ half)) :
    windowIdx es ns cx cy half = [] := by
  rw [List.eq_nil_iff_forall_not_mem]
  intro i hi
  obtain ⟨h1, h2⟩ := (window_membership_iff es ns cx cy half i).mp hi
  exact h i h1 h2

/-- `unravel_index`: a flat index below `nrows·ncols` addresses a valid cell of the input's shape, and the map is
    inverted by `row·ncols + col`. -/
theorem unravel_valid (nrows ncols k : Nat) (hk : k < nrows * ncols) :
    (unravel ncols k).1 < nrows ∧ (unravel ncols k).2 < ncols ∧
    (unravel ncols k).1 * ncols + (unravel ncols k).2 = k := by
  have hc : 0 < ncols := by
    rcases Nat.eq_zero_or_pos ncols with h | h
    · subst h; simp at hk
    · exact h
  refine ⟨?_, Nat.mod_lt _ hc, ?_⟩
  · simp only [unravel]; rw [Nat.div_lt_iff_lt_mul hc]; exact hk
  · simp only [unravel]; have := Nat.div_add_mod k ncols; rw [Nat.mul_comm] at this; exact this

/-- Nested by size: a smaller (or equal) window selects a subset. -/
theorem windows_nested (es ns : List Rat) (cx cy h1 h2 : Rat) (hle : h1 ≤ h2) :
    ∀ i ∈ windowIdx es ns cx cy h1, i ∈ windowIdx es ns cx cy h2 := by
  intro i hi
  rw [window_membership_iff] at hi ⊢
  exact ⟨hi.1, le_trans hi.2.1 hle, le_trans hi.2.2 hle⟩

/-- Expanding windows follow the order of the given sizes and are nested by size. -/
theorem expanding_order (es ns : List Rat) (cx cy : Rat) (sizes : List Rat) (k : Nat) (hk : k < sizes.length) :
    (expandingWindow es ns cx cy sizes)[k]? = some (windowIdx es ns cx cy (sizes[k] / 2)) := by
  simp [expandingWindow, List.getElem?_map, List.getElem?_eq_getElem hk]

theorem expanding_nested (es ns : List Rat) (cx cy s1 s2 : Rat) (hle : s1 ≤ s2) :
    ∀ i ∈ windowIdx es ns cx cy (s1 / 2), i ∈ windowIdx es ns cx cy (s2 / 2) :=
  windows_nested es ns cx cy _ _ (by linarith)

/-- 1-D coverage: if the step between consecutive centres does not exceed the window size, every coordinate between
    the first centre minus half a window and the last centre plus half a window is within half a window of some centre. -/
theorem cover_1d (a step size x : Rat) (m : Nat) (hstep0 : 0 ≤ step) (hstep : step ≤ size)
    (hlo : a - size / 2 ≤ x) (hhi : x ≤ a + (m : Rat) * step + size / 2) :
    ∃ k : Nat, k ≤ m ∧ |x - (a + (k : Rat) * step)| ≤ size / 2 := by
  induction m with
  | zero =>
    refine ⟨0, le_refl _, ?_⟩
    simp only [Nat.cast_zero, zero_mul, add_zero] at hhi ⊢
    rw [abs_le]; constructor <;> linarith
  | succ m ih =>
    by_cases hx : x ≤ a + (m : Rat) * step + size / 2
    · obtain ⟨k, hk, h⟩ := ih hx
      exact ⟨k, by omega, h⟩
    · refine ⟨m + 1, le_refl _, ?_⟩
      push_cast at hhi ⊢
      rw [abs_le]; constructor <;> nlinarith

/-- **Coverage.**  With centres on the grid `(a_e + j·step_e, a_n + i·step_n)` and both steps at most the window size,
    every point of the region spanned by the centres ± half a window is in some window. -/
theorem windows_cover (es ns : List Rat) (ae an stepe stepn size : Rat) (me mn : Nat)
    (he0 : 0 ≤ stepe) (hn0 : 0 ≤ stepn) (he : stepe ≤ size) (hn : stepn ≤ size)
    (p : Nat) (hp : p < es.length)
    (hx : ae - size / 2 ≤ es.getD p 0 ∧ es.getD p 0 ≤ ae + (me : Rat) * stepe + size / 2)
    (hy : an - size / 2 ≤ ns.getD p 0 ∧ ns.getD p 0 ≤ an + (mn : Rat) * stepn + size / 2) :
    ∃ i j : Nat, i ≤ mn ∧ j ≤ me ∧
      p ∈ windowIdx es ns (ae + (j : Rat) * stepe) (an + (i : Rat) * stepn) (size / 2) := by
  obtain ⟨j, hj, hjx⟩ := cover_1d ae stepe size (es.getD p 0) me he0 he hx.1 hx.2
  obtain ⟨i, hi, hiy⟩ := cover_1d an stepn size (ns.getD p 0) mn hn0 hn hy.1 hy.2
  exact ⟨i, j, hi, hj, (window_membership_iff es ns _ _ _ p).mpr ⟨hp, hjx, hiy⟩⟩

/-- One index set per window centre, row-major in the centres' shape `(n_north, n_east)`; the centres are the regular
    grid of the region shrunk by half a window on each side. -/
theorem rolling_structure (es ns : List Rat) (size : Rat) (b : BlockSpec) (o : RollOut)
    (h : rollingWindow es ns size b = .ok o) :
    ∃ w e s n, blockRegion es ns b = .ok [w, e, s, n] ∧ size ≤ ratMin (e - w) (n - s) ∧
      gridLines [w + size / 2, e - size / 2, s + size / 2, n - size / 2] ⟨b.shape, b.spacing, b.adjust, false⟩
        = .ok (o.east, o.north) ∧
      o.windows = o.north.flatMap (fun cy => o.east.map fun cx => windowIdx es ns cx cy (size / 2)) ∧
      o.windows.length = o.north.length * o.east.length := by
  unfold rollingWindow at h
  simp only [bind, Except.bind] at h
  split_ifs at h with h0
  cases hr : blockRegion es ns b with
  | error err => simp [hr] at h
  | ok regl =>
    simp only [hr] at h
    match regl, h with
    | [w, e, s, n], h =>
      simp only [pure, Except.pure] at h
      split_ifs at h with hsz
      cases hl : gridLines [w + size / 2, e - size / 2, s + size / 2, n - size / 2]
          ⟨b.shape, b.spacing, b.adjust, false⟩ with
      | error err => simp [hl] at h
      | ok lines =>
        simp only [hl, Except.ok.injEq] at h
        subst h
        refine ⟨w, e, s, n, rfl, not_lt.mp hsz, hl, rfl, ?_⟩
        simp [List.length_flatMap]

/-- Oversized windows and a missing shape/spacing are rejected. -/
theorem oversize_window_rejected (es ns : List Rat) (size : Rat) (b : BlockSpec) (w e s n : Rat)
    (hb : b.shape.isSome ∨ b.spacing.isSome) (hr : blockRegion es ns b = .ok [w, e, s, n])
    (hbig : ratMin (e - w) (n - s) < size) : rollingWindow es ns size b = .error .valueError := by
  unfold rollingWindow
  have h0 : ¬ (b.shape.isNone && b.spacing.isNone) = true := by
    rcases hb with h | h
    · cases hs : b.shape <;> simp_all
    · cases hs : b.spacing <;> simp_all
  simp [bind, Except.bind, h0, hr, pure, Except.pure, hbig]

theorem neither_shape_nor_spacing_rejected (es ns : List Rat) (size : Rat) (region : Option (List Rat)) (adj : Adjust) :
    rollingWindow es ns size ⟨region, none, none, adj⟩ = .error .valueError := by
  simp [rollingWindow, bind, Except.bind]

/-! Non-vacuity -/
example : windowIdx [0, 1, 2, 3, 7, 8] [0, 1, 2, 3, 7, 8] 1 1 1 = [0, 1, 2] := by decide +kernel
example : (rollingWindow [0, 1, 2, 3, 7, 8] [0, 1, 2, 3, 7, 8] 2 ⟨some [0, 10, 0, 10], some (1, 3), none, .spacing⟩).toOption.map
    (fun o => (o.east, o.north, o.windows)) = some ([1, 5, 9], [1], [[0, 1, 2], [], []]) := by decide +kernel

/-! ### Bridge: the window-centre grid of `rolling_window` regenerated from source -/

theorem ratMin_not_lt {a b s : Rat} (h : ¬ ratMin a b < s) : s ≤ a ∧ s ≤ b := by
  unfold ratMin at h
  split_ifs at h with hb
  · constructor <;> linarith
  · constructor <;> linarith

/-- In exact arithmetic the repair of finding D9 (collapse an inverted centre interval to the middle) is dead code: once the window
    size has been checked against the region, the two bounds of the centre interval are never inverted — only round-off inverts them. -/
theorem centre_interval_not_inverted (lo hi size : Rat) (h : size ≤ hi - lo) :
    ¬ (lo + 1 * size / 2 > hi + (-1) * size / 2) := by
  intro hc; linarith

/-- **Bridge.**  `rolling_window` up to `centers = grid_coordinates(window_region, ...)` as regenerated STATEMENT BY STATEMENT from /repo's
    source text on every run — the shape/spacing guard, the default region, `min(E - W, N - S) < size` → ValueError, the list comprehension
    `dimension + (-1) ** (i % 2) * size / 2` unrolled over the four bounds, the loop over `((0, 1), (2, 3))` that collapses an inverted
    centre interval (the repair of finding D9), and the call to the translated `grid_coordinates` core — equals the centre lines of the
    model's `rollingWindow` for every point set, size, optional region, shape, spacing and adjust string, including which error is raised. -/
theorem gen_rolling_centres_eq_model (es ns : List Rat) (size : Rat) (region : Option (Rat × Rat × Rat × Rat))
    (shape : Option (Nat × Nat)) (spacing : Option (List Rat)) (adj : String) :
    Gen.rollingCentres es ns size spacing (shape.map fun p => ((p.1 : Int), (p.2 : Int))) region adj
      = (rollingWindow es ns size ⟨region.map C08.quadList, shape, spacing, C07.adjOf adj⟩).map fun o => (o.east, o.north) := by
  unfold Gen.rollingCentres rollingWindow
  by_cases hnone : shape = none ∧ spacing = none
  · obtain ⟨h1, h2⟩ := hnone
    subst h1; subst h2
    simp [bind, Except.bind, throw, throwThe, MonadExceptOf.throw, Except.map]
  · have hg : ¬ ((Option.map (fun p : Nat × Nat => ((p.1 : Int), (p.2 : Int))) shape).isNone = true ∧ spacing.isNone = true) := by
      intro h; apply hnone
      cases shape <;> cases spacing <;> simp_all
    have hm : ¬ ((shape.isNone && spacing.isNone) = true) := by
      intro h; apply hnone
      cases shape <;> cases spacing <;> simp_all
    simp only [hg, hm, if_false, Bool.false_eq_true]
    cases region with
    | some r =>
      obtain ⟨w, e, s, n⟩ := r
      simp only [blockRegion, Option.map, C08.quadList, bind, Except.bind, pure, Except.pure]
      by_cases hsz : ratMin (e - w) (n - s) < size
      · simp [hsz, throw, throwThe, MonadExceptOf.throw, Except.map]
      · simp only [hsz, if_false]
        obtain ⟨h1, h2⟩ := ratMin_not_lt hsz
        have i1 := centre_interval_not_inverted w e size h1
        have i2 := centre_interval_not_inverted s n size h2
        have e1 : w + 1 * size / 2 = w + size / 2 := by ring
        have e2 : e + (-1) * size / 2 = e - size / 2 := by ring
        have e3 : s + 1 * size / 2 = s + size / 2 := by ring
        have e4 : n + (-1) * size / 2 = n - size / 2 := by ring
        have hb := C07.gen_grid_lines_eq_model (w + size / 2) (e - size / 2) (s + size / 2) (n - size / 2) shape spacing adj false
        simp only [Option.map] at hb
        rw [e1, e2] at i1; rw [e3, e4] at i2
        simp only [e1, e2, e3, e4, i1, i2, if_false, hb]
        cases gridLines [w + size / 2, e - size / 2, s + size / 2, n - size / 2] ⟨shape, spacing, C07.adjOf adj, false⟩ <;> rfl
    | none =>
      simp only [blockRegion, Option.map, C08.quadOfOpts_getRegion, bind, Except.bind, pure, Except.pure]
      cases hgr : getRegion es ns with
      | none => rfl
      | some r =>
        simp only []
        by_cases hsz : ratMin (r.e - r.w) (r.n - r.s) < size
        · simp [hsz, throw, throwThe, MonadExceptOf.throw, Except.map]
        · simp only [hsz, if_false]
          obtain ⟨h1, h2⟩ := ratMin_not_lt hsz
          have i1 := centre_interval_not_inverted r.w r.e size h1
          have i2 := centre_interval_not_inverted r.s r.n size h2
          have e1 : r.w + 1 * size / 2 = r.w + size / 2 := by ring
          have e2 : r.e + (-1) * size / 2 = r.e - size / 2 := by ring
          have e3 : r.s + 1 * size / 2 = r.s + size / 2 := by ring
          have e4 : r.n + (-1) * size / 2 = r.n - size / 2 := by ring
          have hb := C07.gen_grid_lines_eq_model (r.w + size / 2) (r.e - size / 2) (r.s + size / 2) (r.n - size / 2) shape spacing adj false
          simp only [Option.map] at hb
          rw [e1, e2] at i1; rw [e3, e4] at i2
          simp only [e1, e2, e3, e4, i1, i2, if_false, hb]
          cases gridLines [r.w + size / 2, r.e - size / 2, r.s + size / 2, r.n - size / 2] ⟨shape, spacing, C07.adjOf adj, false⟩ <;> rfl


/-! ### The regenerated source satisfies the property -/
/-- The translated prelude of `rolling_window`: whenever it returns centre lines, they are the grid lines (requested shape / spacing / adjust,
    grid-line registered) of the region shrunk by half a window on each side, and the window fits into the region. -/
theorem src_rolling_centres (es ns : List Rat) (size : Rat) (region : Option (Rat × Rat × Rat × Rat)) (shape : Option (Nat × Nat))
    (spacing : Option (List Rat)) (adj : String) (east north : List Rat)
    (h : Gen.rollingCentres es ns size spacing (shape.map fun p => ((p.1 : Int), (p.2 : Int))) region adj = .ok (east, north)) :
    ∃ w e s n, blockRegion es ns ⟨region.map C08.quadList, shape, spacing, C07.adjOf adj⟩ = .ok [w, e, s, n] ∧
      size ≤ ratMin (e - w) (n - s) ∧
      gridLines [w + size / 2, e - size / 2, s + size / 2, n - size / 2] ⟨shape, spacing, C07.adjOf adj, false⟩ = .ok (east, north) := by
  rw [gen_rolling_centres_eq_model] at h
  cases hr : rollingWindow es ns size ⟨region.map C08.quadList, shape, spacing, C07.adjOf adj⟩ with
  | error err => simp [hr, Except.map] at h
  | ok o =>
    simp only [hr, Except.map, Except.ok.injEq, Prod.mk.injEq] at h
    obtain ⟨w, e, s, n, h1, h2, h3, _, _⟩ := rolling_structure es ns size _ o hr
    exact ⟨w, e, s, n, h1, h2, by rw [h3, h.1, h.2]⟩

/-! ## `expanding_window` and the queries of `rolling_window` as regenerated from the source (Gen/Windows.lean) -/

/-- **Bridge.**  `expanding_window` as regenerated from the source. -/
theorem gen_expanding_window_eq_model (es ns : List Rat) (cx cy : Rat) (sizes : List Rat) :
    Gen.expandingWindow es ns (cx, cy) sizes = expandingWindow es ns cx cy sizes := rfl

theorem rollingIndices_eq (es ns east north : List Rat) (size : Rat) :
    Gen.rollingIndices es ns east north size = north.flatMap fun cy => east.map fun cx => windowIdx es ns cx cy (size / 2) := by
  unfold Gen.rollingIndices
  simp only [List.map_flatMap, List.map_map, Function.comp_def]

/-- **Bridge.**  The query part of `rolling_window` as regenerated from the source gives, for the centre lines the model computes, the model's
    windows: one index set per centre, row-major, each the closed square of half the size. -/
theorem gen_rolling_indices_eq_model (es ns : List Rat) (size : Rat) (b : BlockSpec) (o : RollOut)
    (h : rollingWindow es ns size b = .ok o) :
    Gen.rollingIndices es ns o.east o.north size = o.windows := by
  unfold rollingWindow at h
  simp only [bind, Except.bind, pure, Except.pure] at h
  repeat' split at h
  all_goals first
    | (cases h; exact rollingIndices_eq _ _ _ _ _)
    | cases h

/-- **Membership, about the source as it is now:** the `k`-th index set `expanding_window` returns holds exactly the points whose easting and
    northing both lie within half of `sizes[k]` of the centre (closed square), in the order of the given sizes. -/
theorem src_expanding_window_membership (es ns : List Rat) (cx cy : Rat) (sizes : List Rat) (k : Nat) (hk : k < sizes.length) (i : Nat) :
    ∃ w, (Gen.expandingWindow es ns (cx, cy) sizes)[k]? = some w ∧
      (i ∈ w ↔ i < es.length ∧ |es.getD i 0 - cx| ≤ sizes[k] / 2 ∧ |ns.getD i 0 - cy| ≤ sizes[k] / 2) := by
  refine ⟨windowIdx es ns cx cy (sizes[k] / 2), ?_, window_membership_iff _ _ _ _ _ _⟩
  rw [gen_expanding_window_eq_model]
  exact expanding_order es ns cx cy sizes k hk

/-- **Membership, about the source as it is now:** every index set the query part of `rolling_window` returns is the closed square of half the
    window size around its own centre. -/
theorem src_rolling_indices_membership (es ns east north : List Rat) (size : Rat) (w : List Nat)
    (hw : w ∈ Gen.rollingIndices es ns east north size) :
    ∃ cx ∈ east, ∃ cy ∈ north, ∀ i, i ∈ w ↔ i < es.length ∧ |es.getD i 0 - cx| ≤ size / 2 ∧ |ns.getD i 0 - cy| ≤ size / 2 := by
  rw [rollingIndices_eq] at hw
  obtain ⟨cy, hcy, hw⟩ := List.mem_flatMap.mp hw
  obtain ⟨cx, hcx, rfl⟩ := List.mem_map.mp hw
  exact ⟨cx, hcx, cy, hcy, fun i => window_membership_iff _ _ _ _ _ _⟩

/-- **`rolling_window` as a whole, about the source as it is now:** the regenerated prelude (`Gen.rollingCentres`: guards, default region, the
    centre region shrunk by half a window, the grid of centres) followed by the regenerated queries (`Gen.rollingIndices`) returns exactly what the
    model's `rollingWindow` returns — centre lines and one closed-square index set per centre, row-major. -/
theorem gen_rolling_window_eq_model (es ns : List Rat) (size : Rat) (region : Option (Rat × Rat × Rat × Rat))
    (shape : Option (Nat × Nat)) (spacing : Option (List Rat)) (adj : String) :
    (Gen.rollingCentres es ns size spacing (shape.map fun p => ((p.1 : Int), (p.2 : Int))) region adj).map
        (fun c => (c.1, c.2, Gen.rollingIndices es ns c.1 c.2 size))
      = (rollingWindow es ns size ⟨region.map C08.quadList, shape, spacing, C07.adjOf adj⟩).map fun o => (o.east, o.north, o.windows) := by
  rw [gen_rolling_centres_eq_model]
  cases h : rollingWindow es ns size ⟨region.map C08.quadList, shape, spacing, C07.adjOf adj⟩ with
  | error e => rfl
  | ok o =>
    simp only [Except.map]
    rw [gen_rolling_indices_eq_model es ns size _ o h]

end Verde.C14
