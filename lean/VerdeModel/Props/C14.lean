/-
  C14 — Rolling and expanding windows select exactly the points inside each window.
-/
import VerdeModel.Model.Windows
import VerdeModel.Lemmas.Coords
import VerdeModel.Lemmas.MinMax
namespace Verde.C14
open Verde

/-- Window membership: index `i` is selected iff point `i` lies in the closed square of half-width `half`. -/
theorem window_membership_iff (es ns : List Rat) (cx cy half : Rat) (i : Nat) :
    i ∈ windowIdx es ns cx cy half ↔
      i < es.length ∧ |es.getD i 0 - cx| ≤ half ∧ |ns.getD i 0 - cy| ≤ half := by
  simp [windowIdx, ratAbs_eq_abs]

/-- Indices are valid, ascending and without repetition; an empty window gives the empty list. -/
theorem window_indices_valid (es ns : List Rat) (cx cy half : Rat) :
    (∀ i ∈ windowIdx es ns cx cy half, i < es.length) ∧ (windowIdx es ns cx cy half).Pairwise (· < ·) := by
  constructor
  · intro i hi; exact ((window_membership_iff es ns cx cy half i).mp hi).1
  · unfold windowIdx; exact List.Pairwise.filter _ List.pairwise_lt_range

theorem empty_window (es ns : List Rat) (cx cy half : Rat)
    (h : ∀ i, i < es.length → ¬ (|es.getD i 0 - cx| ≤ half ∧ |ns.getD i 0 - cy| ≤ half)) :
    windowIdx es ns cx cy half = [] := by
  rw [List.eq_nil_iff_forall_not_mem]
  intro i hi
  obtain ⟨h1, h2⟩ := (window_membership_iff es ns cx cy half i).mp hi
  exact h i h1 h2

/-- `unravel_index`: a flat index below `nrows·ncols` addresses a valid cell of the input's shape, and the map is
    inverted by `row·ncols + col`. -/
theorem unravel_valid (nrows ncols k : Nat) (hk : k < nrows * ncols) :
    (unravel ncols k).1 < nrows ∧ (unravel ncols k).2 < ncols ∧
    (unravel ncols k).1 * ncols + (unravel ncols k).2 = k := by
  have hc : 0 < ncols := by
    rcases Nat.eq_zero_or_pos ncols with h | h
    · subst h; simp at hk
    · exact h
  refine ⟨?_, Nat.mod_lt _ hc, ?_⟩
  · simp only [unravel]; rw [Nat.div_lt_iff_lt_mul hc]; exact hk
  · simp only [unravel]; have := Nat.div_add_mod k ncols; rw [Nat.mul_comm] at this; exact this

/-- Nested by size: a smaller (or equal) window selects a subset. -/
theorem windows_nested (es ns : List Rat) (cx cy h1 h2 : Rat) (hle : h1 ≤ h2) :
    ∀ i ∈ windowIdx es ns cx cy h1, i ∈ windowIdx es ns cx cy h2 := by
  intro i hi
  rw [window_membership_iff] at hi ⊢
  exact ⟨hi.1, le_trans hi.2.1 hle, le_trans hi.2.2 hle⟩

/-- Expanding windows follow the order of the given sizes and are nested by size. -/
theorem expanding_order (es ns : List Rat) (cx cy : Rat) (sizes : List Rat) (k : Nat) (hk : k < sizes.length) :
    (expandingWindow es ns cx cy sizes)[k]? = some (windowIdx es ns cx cy (sizes[k] / 2)) := by
  simp [expandingWindow, List.getElem?_map, List.getElem?_eq_getElem hk]

theorem expanding_nested (es ns : List Rat) (cx cy s1 s2 : Rat) (hle : s1 ≤ s2) :
    ∀ i ∈ windowIdx es ns cx cy (s1 / 2), i ∈ windowIdx es ns cx cy (s2 / 2) :=
  windows_nested es ns cx cy _ _ (by linarith)

/-- 1-D coverage: if the step between consecutive centres does not exceed the window size, every coordinate between
    the first centre minus half a window and the last centre plus half a window is within half a window of some centre. -/
theorem cover_1d (a step size x : Rat) (m : Nat) (hstep0 : 0 ≤ step) (hstep : step ≤ size)
    (hlo : a - size / 2 ≤ x) (hhi : x ≤ a + (m : Rat) * step + size / 2) :
    ∃ k : Nat, k ≤ m ∧ |x - (a + (k : Rat) * step)| ≤ size / 2 := by
  induction m with
  | zero =>
    refine ⟨0, le_refl _, ?_⟩
    simp only [Nat.cast_zero, zero_mul, add_zero] at hhi ⊢
    rw [abs_le]; constructor <;> linarith
  | succ m ih =>
    by_cases hx : x ≤ a + (m : Rat) * step + size / 2
    · obtain ⟨k, hk, h⟩ := ih hx
      exact ⟨k, by omega, h⟩
    · refine ⟨m + 1, le_refl _, ?_⟩
      push_cast at hhi ⊢
      rw [abs_le]; constructor <;> nlinarith

/-- **Coverage.**  With centres on the grid `(a_e + j·step_e, a_n + i·step_n)` and both steps at most the window size,
    every point of the region spanned by the centres ± half a window is in some window. -/
theorem windows_cover (es ns : List Rat) (ae an stepe stepn size : Rat) (me mn : Nat)
    (he0 : 0 ≤ stepe) (hn0 : 0 ≤ stepn) (he : stepe ≤ size) (hn : stepn ≤ size)
    (p : Nat) (hp : p < es.length)
    (hx : ae - size / 2 ≤ es.getD p 0 ∧ es.getD p 0 ≤ ae + (me : Rat) * stepe + size / 2)
    (hy : an - size / 2 ≤ ns.getD p 0 ∧ ns.getD p 0 ≤ an + (mn : Rat) * stepn + size / 2) :
    ∃ i j : Nat, i ≤ mn ∧ j ≤ me ∧
      p ∈ windowIdx es ns (ae + (j : Rat) * stepe) (an + (i : Rat) * stepn) (size / 2) := by
  obtain ⟨j, hj, hjx⟩ := cover_1d ae stepe size (es.getD p 0) me he0 he hx.1 hx.2
  obtain ⟨i, hi, hiy⟩ := cover_1d an stepn size (ns.getD p 0) mn hn0 hn hy.1 hy.2
  exact ⟨i, j, hi, hj, (window_membership_iff es ns _ _ _ p).mpr ⟨hp, hjx, hiy⟩⟩

/-- One index set per window centre, row-major in the centres' shape `(n_north, n_east)`; the centres are the regular
    grid of the region shrunk by half a window on each side. -/
theorem rolling_structure (es ns : List Rat) (size : Rat) (b : BlockSpec) (o : RollOut)
    (h : rollingWindow es ns size b = .ok o) :
    ∃ w e s n, blockRegion es ns b = .ok [w, e, s, n] ∧ size ≤ ratMin (e - w) (n - s) ∧
      gridLines [w + size / 2, e - size / 2, s + size / 2, n - size / 2] ⟨b.shape, b.spacing, b.adjust, false⟩
        = .ok (o.east, o.north) ∧
      o.windows = o.north.flatMap (fun cy => o.east.map fun cx => windowIdx es ns cx cy (size / 2)) ∧
      o.windows.length = o.north.length * o.east.length := by
  unfold rollingWindow at h
  simp only [bind, Except.bind] at h
  split_ifs at h with h0
  cases hr : blockRegion es ns b with
  | error err => simp [hr] at h
  | ok regl =>
    simp only [hr] at h
    match regl, h with
    | [w, e, s, n], h =>
      simp only [pure, Except.pure] at h
      split_ifs at h with hsz
      cases hl : gridLines [w + size / 2, e - size / 2, s + size / 2, n - size / 2]
          ⟨b.shape, b.spacing, b.adjust, false⟩ with
      | error err => simp [hl] at h
      | ok lines =>
        simp only [hl, Except.ok.injEq] at h
        subst h
        refine ⟨w, e, s, n, rfl, not_lt.mp hsz, hl, rfl, ?_⟩
        simp [List.length_flatMap]

/-- Oversized windows and a missing shape/spacing are rejected. -/
theorem oversize_window_rejected (es ns : List Rat) (size : Rat) (b : BlockSpec) (w e s n : Rat)
    (hb : b.shape.isSome ∨ b.spacing.isSome) (hr : blockRegion es ns b = .ok [w, e, s, n])
    (hbig : ratMin (e - w) (n - s) < size) : rollingWindow es ns size b = .error .valueError := by
  unfold rollingWindow
  have h0 : ¬ (b.shape.isNone && b.spacing.isNone) = true := by
    rcases hb with h | h
    · cases hs : b.shape <;> simp_all
    · cases hs : b.spacing <;> simp_all
  simp [bind, Except.bind, h0, hr, pure, Except.pure, hbig]

theorem neither_shape_nor_spacing_rejected (es ns : List Rat) (size : Rat) (region : Option (List Rat)) (adj : Adjust) :
    rollingWindow es ns size ⟨region, none, none, adj⟩ = .error .valueError := by
  simp [rollingWindow, bind, Except.bind]

/-! Non-vacuity -/
example : windowIdx [0, 1, 2, 3, 7, 8] [0, 1, 2, 3, 7, 8] 1 1 1 = [0, 1, 2] := by decide +kernel
example : (rollingWindow [0, 1, 2, 3, 7, 8] [0, 1, 2, 3, 7, 8] 2 ⟨some [0, 10, 0, 10], some (1, 3), none, .spacing⟩).toOption.map
    (fun o => (o.east, o.north, o.windows)) = some ([1, 5, 9], [1], [[0, 1, 2], [], []]) := by decide +kernel

end Verde.C14
