/-
  C19 — load_surfer returns the file's grid faithfully or refuses it.
  Token-level model: number lexing and whitespace splitting (`int()`, `float()`, `numpy.loadtxt`, `str.split`) are
  delegated to the harness, which generates the whitespace/format variations and hands the parsed values to the model.
  File-handle management is an OS-level fact observed by the harness (`open` wrapped); the model exposes it as a trace.
-/
import VerdeModel.Model.Surfer
import VerdeModel.Gen.IO
import VerdeModel.Lemmas.Num
import VerdeModel.Lemmas.MinMax
namespace Verde.C19
open Verde

theorem optOk_ok {α : Type} {o : Option α} {a : α} (h : optOk o = .ok a) : o = some a := by
  cases o <;> simp_all [optOk]

theorem twoOk_ok {o : Option (List Rat)} {p : Rat × Rat} (h : twoOk o = .ok p) : o = some [p.1, p.2] := by
  unfold twoOk at h
  split at h
  · cases h; rfl
  · cases h

theorem guardE_ok {c : Bool} {e : Err} {u : Unit} (h : guardE c e = .ok u) : c = true := by
  unfold guardE at h; split_ifs at h with hc; exact hc

theorem parseHeader_ok (f : SurferFile) (hd : SurferHeader) (h : parseHeader f = .ok hd) :
    f.shapeLine.mapM Tok.asInt = some hd.shape ∧ f.nsLine.mapM Tok.asNum = some [hd.south, hd.north] ∧
    f.weLine.mapM Tok.asNum = some [hd.west, hd.east] ∧ f.rangeLine.mapM Tok.asNum = some hd.range := by
  unfold parseHeader at h
  obtain ⟨shape, h1, h⟩ := except_bind_ok _ _ _ h
  obtain ⟨ns, h2, h⟩ := except_bind_ok _ _ _ h
  obtain ⟨we, h3, h⟩ := except_bind_ok _ _ _ h
  obtain ⟨range, h4, h⟩ := except_bind_ok _ _ _ h
  simp only [pure, Except.pure, Except.ok.injEq] at h
  subst h
  exact ⟨optOk_ok h1, twoOk_ok h2, twoOk_ok h3, optOk_ok h4⟩

/-- **Faithful or refused.**  Whenever `load_surfer` returns a grid: the body has at least two lines (one per grid row), every line
    has the same number of values, the header counts are exactly (number of lines, values per line), the returned values
    are the body tokens row by row in file order with sentinels blanked, the coordinates are evenly spaced over the header
    ranges, and the grid id is the header's.  No input yields a grid that differs from the file. -/
theorem load_ok_implies_faithful (f : SurferFile) (g : SurferGrid) (h : (loadSurfer f).1 = .ok g) :
    ∃ south north west east : Rat,
      f.nsLine.mapM Tok.asNum = some [south, north] ∧ f.weLine.mapM Tok.asNum = some [west, east] ∧
      (∀ r ∈ f.body, r.length = (f.body.headD []).length) ∧
      f.shapeLine.mapM Tok.asInt = some [(f.body.length : Int), ((f.body.headD []).length : Int)] ∧
      f.body.length ≠ 1 ∧
      g.shape = [(f.body.length : Int), ((f.body.headD []).length : Int)] ∧
      g.values = f.body.map (maskRow f.blank) ∧
      g.northing = linspace south north f.body.length ∧
      g.easting = linspace west east (f.body.headD []).length ∧
      g.gridId = f.gridId := by
  unfold loadSurfer at h
  simp only [] at h
  obtain ⟨hd, hhd, h⟩ := except_bind_ok _ _ _ h
  obtain ⟨hshape, hns, hwe, _⟩ := parseHeader_ok f hd hhd
  unfold loadBody at h
  obtain ⟨_, hg1, h⟩ := except_bind_ok _ _ _ h
  obtain ⟨_, hg2, h⟩ := except_bind_ok _ _ _ h
  obtain ⟨_, _, h⟩ := except_bind_ok _ _ _ h
  have hrect := guardE_ok hg1
  have hfs' : fieldShape f.body = hd.shape := by simpa using guardE_ok hg2
  have hrect' : ∀ r ∈ f.body, r.length = (f.body.headD []).length := by
    intro r hr'
    simp only [List.all_eq_true, beq_iff_eq] at hrect
    exact hrect r hr'
  unfold gridOfShape at h
  split at h
  · rename_i ny nx hshp
    simp only [Except.ok.injEq] at h
    subst h
    unfold fieldShape at hfs'
    by_cases h1 : f.body.length = 1
    · simp only [h1, if_true] at hfs'
      rw [hshp] at hfs'; simp at hfs'
    · simp only [h1, if_false] at hfs'
      rw [hshp] at hfs'
      simp only [List.cons.injEq, and_true] at hfs'
      obtain ⟨e1, e2⟩ := hfs'
      refine ⟨hd.south, hd.north, hd.west, hd.east, hns, hwe, hrect', ?_, h1, ?_, rfl, ?_, ?_, rfl⟩
      · rw [hshape, hshp, ← e1, ← e2]
      · rw [hshp, ← e1, ← e2]
      · rw [← e1]; simp
      · rw [← e2]; simp
  · cases h

theorem allclose1_self (x : Rat) : allclose1 x x = true := by
  unfold allclose1
  simp only [sub_self, decide_eq_true_eq]
  have h0 : ratAbs 0 = 0 := by simp [ratAbs]
  have h1 : 0 ≤ ratAbs x := by rw [ratAbs_eq_abs]; exact abs_nonneg x
  rw [h0]
  have : (0 : Rat) ≤ mkRat 1 100000000 := by decide +kernel
  have : (0 : Rat) ≤ mkRat 1 100000 := by decide +kernel
  positivity

/-- **Every well-formed file loads, to exactly its contents.**  A file with `ny ≥ 2` body lines of `nx` values each, header counts
    `ny nx`, two-number south/north and west/east lines and a data-range line that is (within `allclose`) the minimum and maximum
    of the un-blanked values, is accepted, and the result is: shape `(ny, nx)`, northing/easting evenly spaced over the header
    ranges, the values row by row in file order with sentinels blanked, and the grid id.  Any pattern of blanked cells is
    allowed as long as one value is not blanked (`listMin … = some mn`). -/
theorem load_wellformed (f : SurferFile) (ny nx : Nat) (south north west east lo hi mn mx : Rat) (hny : 2 ≤ ny)
    (hshape : f.shapeLine.mapM Tok.asInt = some [(ny : Int), (nx : Int)])
    (hns : f.nsLine.mapM Tok.asNum = some [south, north]) (hwe : f.weLine.mapM Tok.asNum = some [west, east])
    (hrange : f.rangeLine.mapM Tok.asNum = some [lo, hi])
    (hlen : f.body.length = ny) (hrows : ∀ r ∈ f.body, r.length = nx)
    (hmn : listMin ((f.body.map (maskRow f.blank)).flatten.filterMap id) = some mn)
    (hmx : listMax ((f.body.map (maskRow f.blank)).flatten.filterMap id) = some mx)
    (hlo : allclose1 mn lo = true) (hhi : allclose1 mx hi = true) :
    (loadSurfer f).1 = .ok ⟨[(ny : Int), (nx : Int)], linspace south north ny, linspace west east nx,
      f.body.map (maskRow f.blank), f.gridId⟩ := by
  have hhead : (f.body.headD []).length = nx := by
    cases hb : f.body with
    | nil => rw [hb] at hlen; simp at hlen; omega
    | cons r rs => simp only [List.headD_cons]; exact hrows r (by rw [hb]; exact List.mem_cons_self)
  have hrect : (f.body.all fun r => r.length == (f.body.headD []).length) = true := by
    simp only [List.all_eq_true, beq_iff_eq]
    intro r hr; rw [hhead]; exact hrows r hr
  have hfs : fieldShape f.body = [(ny : Int), (nx : Int)] := by
    unfold fieldShape
    have : f.body.length ≠ 1 := by omega
    rw [if_neg this, hlen, hhead]
  unfold loadSurfer
  simp only [parseHeader, hshape, hns, hwe, hrange, optOk, twoOk, bind, Except.bind, pure, Except.pure]
  unfold loadBody
  simp only [hrect, hfs, guardE, if_true, decide_true, bind, Except.bind, rangeCheck, hmn, hmx, hlo, hhi, Bool.and_self,
    gridOfShape, Int.toNat_natCast]

/-- In particular a writer that records the exact minimum and maximum of the un-blanked values always loads back. -/
theorem load_wellformed_exact_range (f : SurferFile) (ny nx : Nat) (south north west east mn mx : Rat) (hny : 2 ≤ ny)
    (hshape : f.shapeLine.mapM Tok.asInt = some [(ny : Int), (nx : Int)])
    (hns : f.nsLine.mapM Tok.asNum = some [south, north]) (hwe : f.weLine.mapM Tok.asNum = some [west, east])
    (hrange : f.rangeLine.mapM Tok.asNum = some [mn, mx])
    (hlen : f.body.length = ny) (hrows : ∀ r ∈ f.body, r.length = nx)
    (hmn : listMin ((f.body.map (maskRow f.blank)).flatten.filterMap id) = some mn)
    (hmx : listMax ((f.body.map (maskRow f.blank)).flatten.filterMap id) = some mx) :
    (loadSurfer f).1 = .ok ⟨[(ny : Int), (nx : Int)], linspace south north ny, linspace west east nx,
      f.body.map (maskRow f.blank), f.gridId⟩ :=
  load_wellformed f ny nx south north west east mn mx mn mx hny hshape hns hwe hrange hlen hrows hmn hmx
    (allclose1_self mn) (allclose1_self mx)

/-- The result does not depend on whether a path or an open handle is given (only the resource trace does). -/
theorem path_and_handle_agree (f : SurferFile) (b : Bool) : (loadSurfer { f with isPath := b }).1 = (loadSurfer f).1 := by
  unfold loadSurfer parseHeader loadBody gridOfShape; rfl

/-- A body whose shape disagrees with the header counts is refused with an IOError, never loaded. -/
theorem shape_mismatch_rejected (f : SurferFile) (hd : SurferHeader) (hh : parseHeader f = .ok hd)
    (hrect : (f.body.all fun r => r.length == (f.body.headD []).length) = true)
    (hne : fieldShape f.body ≠ hd.shape) : (loadSurfer f).1 = .error .ioError := by
  unfold loadSurfer
  simp only [hh, bind, Except.bind]
  unfold loadBody
  have g1 : guardE (f.body.all fun r => r.length == (f.body.headD []).length) .valueError = .ok () := by
    simp only [guardE, hrect, if_true]
  have g2 : guardE (decide (fieldShape f.body = hd.shape)) .ioError = .error .ioError := by
    simp [guardE, hne]
  simp only [g1, g2, bind, Except.bind]

/-- A data range that disagrees with the body (over the unmasked cells) is refused with an IOError. -/
theorem range_mismatch_rejected (lo hi mn mx : Rat) (vals : List Rat) (hmn : listMin vals = some mn)
    (hmx : listMax vals = some mx) (hbad : (allclose1 mn lo && allclose1 mx hi) = false) :
    rangeCheck [lo, hi] vals = .error .ioError := by
  simp [rangeCheck, hmn, hmx, hbad]

/-- Files opened by the function are closed on every path (success or error); a caller's handle is only read. -/
theorem closed_on_all_paths (f : SurferFile) :
    (loadSurfer f).2 = if f.isPath then [IOEv.open, IOEv.read, IOEv.close] else [IOEv.read] := by
  unfold loadSurfer; rfl

/-- Blanking rule: a value at or above the sentinel becomes NaN (`none`), every other value is kept. -/
theorem blank_rule (blank v : Rat) : maskRow blank [v] = [if v ≥ blank then none else some v] := rfl

/-! Non-vacuity: a well-formed 2×3 file loads to exactly its contents; a blanked cell becomes NaN. -/
example : (loadSurfer ⟨"DSAA", [.int 2, .int 3], [.int 0, .int 10], [.num (-11/2), .int 20], [.int 1, .num (13/2)],
    [[1, 2, 3], [4, 5, 13/2]], true, surferBlank⟩).1.toOption
    = some ⟨[2, 3], [0, 10], [-11/2, 29/4, 20], [[some 1, some 2, some 3], [some 4, some 5, some (13/2)]], "DSAA"⟩ := by
  decide +kernel
example : (loadSurfer ⟨"DSAA", [.int 2, .int 2], [.int 0, .int 1], [.int 0, .int 1], [.int 1, .int 4],
    [[1, surferBlank], [3, 4]], false, surferBlank⟩).1.toOption.map (·.values) = some [[some 1, none], [some 3, some 4]] := by
  decide +kernel
example : (loadSurfer ⟨"DSAA", [.int 3, .int 2], [.int 0, .int 10], [.int 0, .int 20], [.int 1, .num (13/2)],
    [[1, 2, 3], [4, 5, 13/2]], true, surferBlank⟩).1 = .error .ioError := by
  decide +kernel

/-! ### Bridges: header parsing and integrity check regenerated from source -/

/-- **Bridge.**  `_read_surfer_header` as regenerated STATEMENT BY STATEMENT from /repo's source text on every run — five `readline()` calls
    in the code's order (id, counts, south/north, west/east, data range), `int(i.strip())` / `float(i.strip())` over the split tokens, the
    two-value unpackings, and `region = (west, east, south, north)` — equals the model's `parseHeader` for every file (any tokens,
    including non-numbers and wrong counts: the same ValueError), whatever else the lines contain and whatever follows them. -/
theorem gen_read_surfer_header_eq_model (f : SurferFile) (s2 s3 s4 s5 : String) (rest : List SLine) :
    Gen.readSurferHeader (⟨f.gridId, []⟩ :: ⟨s2, f.shapeLine⟩ :: ⟨s3, f.nsLine⟩ :: ⟨s4, f.weLine⟩ :: ⟨s5, f.rangeLine⟩ :: rest)
      = (parseHeader f).map fun h => (f.gridId, h.shape, (h.west, h.east, h.south, h.north), h.range) := by
  unfold Gen.readSurferHeader parseHeader
  simp only [readlineS, intsE, floatsE, bind, Except.bind, pure, Except.pure, Except.map]
  cases h1 : optOk (f.shapeLine.mapM Tok.asInt) with
  | error e => rfl
  | ok sh =>
    simp only []
    cases h2 : f.nsLine.mapM Tok.asNum with
    | none => simp [optOk, twoOk]
    | some ns =>
      match ns with
      | [] => simp [optOk, twoOk, unpack2]
      | [a] => simp [optOk, twoOk, unpack2]
      | a :: b :: c :: r => simp [optOk, twoOk, unpack2]
      | [a, b] =>
        simp only [optOk, twoOk, unpack2]
        cases h3 : f.weLine.mapM Tok.asNum with
        | none => simp
        | some we =>
          match we with
          | [] => simp
          | [a] => simp
          | a :: b :: c :: r => simp
          | [c, d] =>
            simp only []
            cases h4 : f.rangeLine.mapM Tok.asNum <;> simp

/-- **Bridge.**  `_check_surfer_integrity` as regenerated from /repo's source text on every run (`field.shape != shape` → IOError,
    `[field.min(), field.max()]`, `not np.allclose(field_range, data_range)` → IOError) equals the model's two integrity guards for every
    body, value list, header shape and header range (a one-value range broadcasts; other lengths are a ValueError in both). -/
theorem gen_check_surfer_integrity_eq_model (body : List (List Rat)) (vals : List Rat) (shape : List Int) (range : List Rat) :
    Gen.checkSurferIntegrity (fieldShape body) vals shape range
      = (do guardE (decide (fieldShape body = shape)) .ioError; rangeCheck range vals) := by
  unfold Gen.checkSurferIntegrity guardE rangeCheck
  by_cases hs : fieldShape body = shape
  · simp only [hs, ne_eq, not_true_eq_false, if_false, decide_true, if_true, bind, Except.bind, minE, maxE, optOk]
    cases h1 : listMin vals <;> cases h2 : listMax vals <;> rcases range with _ | ⟨a, _ | ⟨b, _ | ⟨c, r⟩⟩⟩ <;>
      simp [allclose2E, throw, throwThe, MonadExceptOf.throw, pure, Except.pure]
    all_goals (split_ifs <;> simp_all)
  · have hne : fieldShape body ≠ shape := hs
    simp [hs, hne, bind, Except.bind, throw, throwThe, MonadExceptOf.throw]

/-! ### The regenerated source satisfies the property -/
/-- The translated `_read_surfer_header`: whenever it returns, the four header lines parsed to exactly the returned counts, (south, north),
    (west, east) — assembled as region (W, E, S, N) — and data range. -/
theorem src_read_header_ok (f : SurferFile) (s2 s3 s4 s5 : String) (rest : List SLine) (g : String) (sh : List Int)
    (w e s n : Rat) (rg : List Rat)
    (h : Gen.readSurferHeader (⟨f.gridId, []⟩ :: ⟨s2, f.shapeLine⟩ :: ⟨s3, f.nsLine⟩ :: ⟨s4, f.weLine⟩ :: ⟨s5, f.rangeLine⟩ :: rest)
        = .ok (g, sh, (w, e, s, n), rg)) :
    g = f.gridId ∧ f.shapeLine.mapM Tok.asInt = some sh ∧ f.nsLine.mapM Tok.asNum = some [s, n] ∧
    f.weLine.mapM Tok.asNum = some [w, e] ∧ f.rangeLine.mapM Tok.asNum = some rg := by
  rw [gen_read_surfer_header_eq_model] at h
  cases hp : parseHeader f with
  | error err => simp [hp, Except.map] at h
  | ok hd =>
    simp only [hp, Except.map, Except.ok.injEq, Prod.mk.injEq] at h
    obtain ⟨rfl, rfl, ⟨rfl, rfl, rfl, rfl⟩, rfl⟩ := h
    exact ⟨rfl, parseHeader_ok f hd hp⟩

/-- The translated `_check_surfer_integrity` refuses a body whose shape differs from the header's and a data range that is not allclose
    to the header's. -/
theorem src_integrity_rejects (body : List (List Rat)) (vals : List Rat) (shape : List Int) (lo hi mn mx : Rat) :
    (fieldShape body ≠ shape → Gen.checkSurferIntegrity (fieldShape body) vals shape [lo, hi] = .error .ioError) ∧
    (fieldShape body = shape → listMin vals = some mn → listMax vals = some mx → (allclose1 mn lo && allclose1 mx hi) = false →
      Gen.checkSurferIntegrity (fieldShape body) vals shape [lo, hi] = .error .ioError) := by
  rw [gen_check_surfer_integrity_eq_model]
  constructor
  · intro h; simp [guardE, h, bind, Except.bind]
  · intro h hmn hmx hbad
    simp [guardE, h, bind, Except.bind, range_mismatch_rejected lo hi mn mx vals hmn hmx hbad]

/-- The lines of a token-level file as `_read_surfer_header` reads them. -/
def headerLines (f : SurferFile) : List SLine :=
  [⟨f.gridId, []⟩, ⟨"", f.shapeLine⟩, ⟨"", f.nsLine⟩, ⟨"", f.weLine⟩, ⟨"", f.rangeLine⟩]

/-- **Bridge.**  The `try:` body of `load_surfer` as regenerated from /repo's source text on every run — the unpacking of the translated header
    reader, `np.loadtxt`, the blank mask `field >= <literal>` (the literal read from the source; `surferBlankLiteral`), the translated integrity
    check on the masked field, `northing = linspace(*region[2:], shape[0])`, `easting = linspace(*region[:2], shape[1])` (slices and indices read
    from the source), dims `('northing', 'easting')` and the grid id — equals the model's `loadSurfer` result for every token-level file. -/
theorem gen_load_surfer_eq_model (f : SurferFile) :
    Gen.loadSurferTry (headerLines f) f.body f.blank = (loadSurfer f).1 := by
  unfold Gen.loadSurferTry loadSurfer headerLines
  simp only [bind, Except.bind]
  rw [gen_read_surfer_header_eq_model f "" "" "" "" []]
  cases hp : parseHeader f with
  | error e => rfl
  | ok hd =>
    simp only [Except.map, loadBody, loadtxtE, guardE, bind, Except.bind]
    by_cases hr : (f.body.all fun r => r.length == (f.body.headD []).length) = true
    · simp only [hr, if_true]
      rw [gen_check_surfer_integrity_eq_model]
      simp only [guardE, bind, Except.bind]
      by_cases hs : fieldShape f.body = hd.shape
      · simp only [hs, decide_true, if_true]
        cases hrc : rangeCheck hd.range ((f.body.map (maskRow f.blank)).flatten.filterMap id) with
        | error e => rfl
        | ok u =>
          simp only [gridOfShape]
          unfold fieldShape at hs
          have hn : ∀ k : Nat, ¬ ((k : Int) < 0) := fun k => by omega
          by_cases h1 : f.body.length = 1
          · simp only [h1, if_true] at hs
            rw [← hs]
            simp [idxI, linspaceE, hn]
          · simp only [h1, if_false] at hs
            rw [← hs]
            simp [idxI, linspaceE, pure, Except.pure, hn]
      · simp [hs]
    · have hr' : ¬ ∀ x ∈ f.body, x.length = (f.body.head?.getD []).length := by simpa using hr
      simp [hr']

/-- The blank threshold written in the source is the model's float64 threshold. -/
theorem gen_surfer_blank_literal : Gen.surferBlankLiteral = surferBlank := by
  unfold Gen.surferBlankLiteral surferBlank; norm_num

end Verde.C19
