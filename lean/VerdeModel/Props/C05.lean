/-
  C05 — grid/profile/scatter place each prediction at the right coordinate.
  All theorems hold for EVERY `predict` (so also asymmetric ones) and every projection.
-/
import VerdeModel.Gen.Profile
import VerdeModel.Model.Gridder
import VerdeModel.Lemmas.Grid
import VerdeModel.Lemmas.Coords
import VerdeModel.Gen.Gridder
namespace Verde.C05
open Verde

def applyProj (proj : Option Proj) (q : Rat × Rat) : Rat × Rat :=
  match proj with | some pr => pr.apply q | none => q

/-- Predicting on a meshgrid: cell `(i, j)` holds the prediction at `(east[j], north[i])` (projected if requested). -/
theorem predictOn_meshgrid (p : Predict) (proj : Option Proj) (east north : List Rat) (k : Nat) :
    predictOn p proj (meshgrid east north).1 (meshgrid east north).2 k =
      north.map fun y => east.map fun x => (p (applyProj proj (x, y))).getD k 0 := by
  unfold predictOn meshgrid applyProj
  simp only [List.zipWith_map_left, List.zipWith_map_right, List.zipWith_self]
  apply List.map_congr_left
  intro y _
  simp [List.zipWith_self]
  intro a _; rfl

/-- **Placement.**  For a region (given, or the gridder's `region_`) and any shape/spacing/adjust/registration whose
    coordinate lines are `(east, north)` (C07 normal forms), `grid()` returns the Dataset with exactly those coordinate
    vectors, dims `(northing, easting)` (or the requested ones), and variable `k` holding at row `i`, column `j` the prediction
    at `(east[j], north[i])` — taken at the projected point when a projection is given, while the coordinates stay
    unprojected.  Never transposed, flipped or shifted. -/
theorem grid_placement (p : Predict) (ncomp : Nat) (a : GridArgs) (reg east north : List Rat) (names : List String)
    (hc : a.coords = none) (hreg : (a.region.orElse fun _ => a.regionDefault) = some reg)
    (hl : gridLines reg ⟨a.shape, a.spacing, a.adjust, a.pixel⟩ = .ok (east, north))
    (he : east ≠ []) (hn : north ≠ []) (hnames : getDataNames ncomp a.dataNames = .ok names) :
    gridModel p ncomp a = .ok ⟨a.dims.getD ("northing", "easting"), east, north,
      (extraCoordNames a.extra.length).zip (a.extra.map fun v => north.map fun _ => east.map fun _ => v),
      names.zip ((List.range ncomp).map fun k =>
        north.map fun y => east.map fun x => (p (applyProj a.proj (x, y))).getD k 0)⟩ := by
  have hgc : gridCoordinates reg ⟨a.shape, a.spacing, a.adjust, a.pixel⟩ a.extra =
      .ok ((meshgrid east north).1 :: (meshgrid east north).2 ::
            a.extra.map fun v => north.map fun _ => east.map fun _ => v) := by
    simp [gridCoordinates, hl, bind, Except.bind, pure, Except.pure]
  have hnl : names.length = ncomp := by
    unfold getDataNames at hnames
    cases hd : a.dataNames with
    | none =>
      rw [hd] at hnames
      simp only [] at hnames
      match ncomp, hnames with
      | 1, h => cases h; rfl
      | 2, h => cases h; rfl
      | 3, h => cases h; rfl
    | some ns =>
      rw [hd] at hnames
      simp only [] at hnames
      split_ifs at hnames with h
      cases hnames; exact h
  have hexrect : ((a.extra.map fun v => north.map fun _ => east.map fun _ => v).all
      fun x => isRect x north.length east.length) = true := by
    simp [isRect]
  have hto1d := meshgridTo1d_meshgrid east north _ he hn hexrect
  have hdatarect : (((a.extra.map fun v => north.map fun _ => east.map fun _ => v) ++
      (List.range ncomp).map fun k => north.map fun y => east.map fun x => (p (applyProj a.proj (x, y))).getD k 0).all
      fun x => isRect x north.length east.length) = true := by
    simp [isRect]
  unfold gridModel
  simp only [hc, Option.isSome_none, Bool.false_and, Bool.false_eq_true, if_false, hreg, hgc, bind, Except.bind,
    pure, Except.pure, hnames, predictOn_meshgrid]
  unfold makeGrid
  simp only [hto1d, bind, Except.bind, pure, Except.pure, checkNames, List.length_map, List.length_range, hnl,
    if_true, hdatarect, extraCoordNames, Bool.not_true, Bool.false_eq_true, if_false]
  cases hex : a.extra with
  | nil => simp
  | cons v vs => simp

/-- Cell form of the placement theorem. -/
theorem grid_value_at (p : Predict) (proj : Option Proj) (east north : List Rat) (k i j : Nat)
    (hi : i < north.length) (hj : j < east.length) :
    ((north.map fun y => east.map fun x => (p (applyProj proj (x, y))).getD k 0)[i]?.bind (·[j]?)) =
      some ((p (applyProj proj (east[j], north[i]))).getD k 0) := by
  simp [List.getElem?_map, List.getElem?_eq_getElem hi, List.getElem?_eq_getElem hj]

/-- Default data-variable names follow the number of components; more than three unnamed components are rejected. -/
theorem data_names_default :
    getDataNames 1 none = .ok ["scalars"] ∧ getDataNames 2 none = .ok ["east_component", "north_component"] ∧
    getDataNames 3 none = .ok ["east_component", "north_component", "vertical_component"] ∧
    (∀ n, 3 < n → getDataNames n none = .error .valueError) := by
  refine ⟨rfl, rfl, rfl, ?_⟩
  intro n hn
  match n, hn with
  | n + 4, _ => rfl

theorem custom_names_checked (n : Nat) (names : List String) :
    getDataNames n (some names) = if names.length = n then .ok names else .error .valueError := rfl

theorem extra_coord_names (n : Nat) :
    (extraCoordNames n).length = n ∧ (0 < n → (extraCoordNames n)[0]? = some "extra_coord") ∧
    (∀ i, 0 < i → i < n → (extraCoordNames n)[i]? = some ("extra_coord_" ++ toString i)) := by
  refine ⟨by simp [extraCoordNames], ?_, ?_⟩
  · intro h; simp [extraCoordNames, List.getElem?_map, List.getElem?_range h]
  · intro i hi hin
    have : i ≠ 0 := by omega
    simp [extraCoordNames, List.getElem?_map, List.getElem?_range hin, this]

/-- Rejections: coordinates together with shape/spacing or with a region; no region at all. -/
theorem coordinates_plus_shape_rejected (p : Predict) (ncomp : Nat) (a : GridArgs)
    (hc : a.coords.isSome = true) (hs : a.spacing.isSome = true ∨ a.shape.isSome = true) :
    gridModel p ncomp a = .error .valueError := by
  unfold gridModel
  have : (a.coords.isSome && (a.spacing.isSome || a.shape.isSome)) = true := by
    rcases hs with h | h <;> simp [hc, h]
  simp [this, bind, Except.bind]

theorem coordinates_plus_region_rejected (p : Predict) (ncomp : Nat) (a : GridArgs)
    (hc : a.coords.isSome = true) (hr : a.region.isSome = true) :
    gridModel p ncomp a = .error .valueError := by
  unfold gridModel
  simp only [bind, Except.bind]
  split_ifs <;> simp_all

theorem no_region_rejected (p : Predict) (ncomp : Nat) (a : GridArgs)
    (hc : a.coords = none) (hr : a.region = none) (hd : a.regionDefault = none) :
    gridModel p ncomp a = .error .valueError := by
  unfold gridModel
  simp [hc, hr, hd, bind, Except.bind]

/-- `profile()`: `size` points evenly spaced on the projected segment, predictions taken there, distances in projected
    units, coordinates mapped back through the inverse projection. -/
theorem profile_rows (p : Predict) (ncomp : Nat) (p1 p2 : Rat × Rat) (size : Int)
    (f g : Proj) (extra : List Rat) (names : List String) (hnm : names.length = ncomp)
    (pts : List (Rat × Rat × Rat)) (hpts : profilePoints (f.apply p1) (f.apply p2) size = .ok pts) :
    profileModel p ncomp p1 p2 size (some (f, g)) extra none (some names) =
      .ok (("northing", pts.map fun q => (g.apply (q.1, q.2.1)).2) ::
           ("easting", pts.map fun q => (g.apply (q.1, q.2.1)).1) ::
           ("distance", pts.map fun q => q.2.2) ::
           ((extraCoordNames extra.length).zip (extra.map fun v => pts.map fun _ => v)) ++
           names.zip ((List.range ncomp).map fun k => pts.map fun q => (p (q.1, q.2.1)).getD k 0)) := by
  simp [profileModel, hpts, getDataNames, hnm, bind, Except.bind, pure, Except.pure, Function.comp]

/-- `scatter()` predicts at the scatter points of the region (variates supplied), which lie inside the region (C13). -/
theorem scatter_rows (p : Predict) (ncomp : Nat) (w e s n : Rat) (hwe : w ≤ e) (hsn : s ≤ n) (ue un : List Rat)
    (names : List String) (hnm : names.length = ncomp) :
    scatterModel p ncomp none (some [w, e, s, n]) ue un [] none none (some names) =
      .ok (("northing", scatterAxis s n un) :: ("easting", scatterAxis w e ue) ::
        names.zip ((List.range ncomp).map fun k =>
          ((scatterAxis w e ue).zip (scatterAxis s n un)).map fun q => (p q).getD k 0)) := by
  simp [scatterModel, scatterPoints, checkRegion, not_lt.mpr hwe, not_lt.mpr hsn, getDataNames, hnm, extraCoordNames,
    bind, Except.bind, pure, Except.pure]


/-! ## The regenerated source (Gen/Gridder.lean, translated from base/base_classes.py on every run) equals the model -/

/-- (`Gen.scatterPoints` = the model's `scatterPoints`; also C13 `gen_scatter_points_eq_model`, repeated here so that this file depends on
    the translation of `scatter_points` only.) -/
theorem gen_scatter_points_eq_model' (region : List Rat) (ue un extra : List Rat) :
    Gen.scatterPoints region [ue, un] extra = scatterPoints region ue un extra := by
  unfold Gen.scatterPoints scatterPoints scatterAxis
  cases checkRegion region with
  | error e => rfl
  | ok r =>
    simp only [bind, Except.bind, pure, Except.pure, List.zip_cons_cons, List.zip_nil_right, List.map_cons, List.map_nil, List.headD_cons,
      List.map_map, List.cons_append, List.nil_append]
    rfl


theorem gen_get_dims (d : Option (String × String)) :
    Gen.getDims Gen.baseDims d = d.getD ("northing", "easting") := by
  cases d <;> rfl

theorem gen_extra_coords_names {α : Type} (cs : List α) :
    Gen.getExtraCoordsNames Gen.baseExtraCoordsName cs = extraCoordNames (cs.length - 2) := by
  unfold Gen.getExtraCoordsNames extraCoordNames Gen.baseExtraCoordsName
  rw [List.length_drop]
  apply List.map_congr_left
  intro i _
  by_cases h : i = 0
  · subst h; simp
  · have : i > 0 := Nat.pos_of_ne_zero h
    simp only [h, this, if_true, if_false]
    rw [String.append_empty, ← String.append_assoc]
    rfl

theorem gen_check_data_names (n : Nat) (names : List String) :
    Gen.checkDataNames n names = (if names.length = n then .ok names else .error .valueError) := by
  unfold Gen.checkDataNames
  by_cases h : names.length = n
  · subst h; simp [pure, Except.pure]
  · have : n ≠ names.length := fun e => h e.symm
    simp [h, this, bind, Except.bind, throw, throwThe, MonadExceptOf.throw]

theorem gen_get_data_names (ncomp : Nat) (h1 : 1 ≤ ncomp) (names : Option (List String)) :
    Gen.getDataNames Gen.baseDataNamesDefaults ncomp names = getDataNames ncomp names := by
  unfold Gen.getDataNames getDataNames
  cases names with
  | some ns =>
    simp only [gen_check_data_names]
  | none =>
    simp only [Gen.baseDataNamesDefaults, List.length_cons, List.length_nil]
    rcases Nat.lt_or_ge 3 ncomp with h | h
    · have : ncomp > 0 + 1 + 1 + 1 := h
      simp only [this, if_true]
      match ncomp, h with
      | n + 4, _ => rfl
    · match ncomp, h1, h with
      | 1, _, _ => rfl
      | 2, _, _ => rfl
      | 3, _, _ => rfl

theorem gen_get_instance_region (dflt region : Option (List Rat)) :
    Gen.getInstanceRegion dflt region = (match region.orElse fun _ => dflt with
      | some r => .ok r
      | none => .error .valueError) := by
  cases region <;> cases dflt <;> rfl



theorem predictTbl_length (p : Predict) (ncomp : Nat) (cs : List (List Rat)) : (predictTbl p ncomp cs).length = ncomp := by
  simp [predictTbl]

theorem projectCoordinates_eq (cs : List (List Rat)) (f : Rat × Rat → Rat × Rat) :
    Gen.projectCoordinates cs f = applyProjTbl f (cs.take 2) ++ cs.drop 2 := by
  unfold Gen.projectCoordinates
  by_cases h : cs.length > 2
  · simp [h, Id.run, pure]
  · have : cs.drop 2 = [] := List.drop_eq_nil_of_le (by omega)
    simp [h, Id.run, pure, this]

theorem projectCoordinates_getD0 (cs : List (List Rat)) (f : Rat × Rat → Rat × Rat) :
    (Gen.projectCoordinates cs f).getD 0 [] = ((cs.getD 0 []).zip (cs.getD 1 [])).map fun q => (f q).1 := by
  rw [projectCoordinates_eq]
  match cs with
  | [] => simp [applyProjTbl]
  | [a] => simp [applyProjTbl]
  | a :: b :: t => simp [applyProjTbl]

theorem projectCoordinates_getD1 (cs : List (List Rat)) (f : Rat × Rat → Rat × Rat) :
    (Gen.projectCoordinates cs f).getD 1 [] = ((cs.getD 0 []).zip (cs.getD 1 [])).map fun q => (f q).2 := by
  rw [projectCoordinates_eq]
  match cs with
  | [] => simp [applyProjTbl]
  | [a] => simp [applyProjTbl]
  | a :: b :: t => simp [applyProjTbl]

theorem projectCoordinates_drop2 (cs : List (List Rat)) (f : Rat × Rat → Rat × Rat) :
    (Gen.projectCoordinates cs f).drop 2 = cs.drop 2 := by
  rw [projectCoordinates_eq]
  simp [applyProjTbl]

theorem gen_scatter_eq_model (p : Predict) (ncomp : Nat) (h1 : 1 ≤ ncomp) (dflt region : Option (List Rat)) (ue un extra : List Rat)
    (proj : Option Proj) (inv : Rat × Rat → Rat × Rat) (dims : Option (String × String)) (names : Option (List String)) :
    Gen.scatter p ncomp Gen.baseDims Gen.baseExtraCoordsName Gen.baseDataNamesDefaults dflt region [ue, un] extra dims names
        (proj.map fun pr b => if b then inv else pr.apply)
      = scatterModel p ncomp dflt region ue un extra proj dims names := by
  unfold Gen.scatter scatterModel
  rw [gen_get_instance_region, gen_get_dims]
  cases hreg : (region.orElse fun _ => dflt) with
  | none => rfl
  | some reg =>
    simp only [bind, Except.bind, pure, Except.pure, gen_scatter_points_eq_model', scatterPoints]
    cases checkRegion reg with
    | error e => rfl
    | ok r =>
      simp only []
      cases proj with
      | none =>
        simp only [Option.map_none, predictTbl_length, gen_get_data_names ncomp h1, gen_extra_coords_names]
        cases getDataNames ncomp names with
        | error e => rfl
        | ok nm =>
          simp [predictTbl]
      | some pr =>
        simp only [Option.map_some, predictTbl_length, gen_get_data_names ncomp h1, gen_extra_coords_names]
        cases getDataNames ncomp names with
        | error e => rfl
        | ok nm =>
          simp only [predictTbl, projectCoordinates_getD0, projectCoordinates_getD1]
          simp [List.zip_map', Function.comp_def]


theorem projectCoordinates_length (cs : List (List Rat)) (f : Rat × Rat → Rat × Rat) :
    (Gen.projectCoordinates cs f).length = 2 + (cs.length - 2) := by
  rw [projectCoordinates_eq]; simp [applyProjTbl]; omega

theorem projectCoordinates_point (q : Rat × Rat) (f : Rat × Rat → Rat × Rat) :
    Gen.projectCoordinates [[q.1], [q.2]] f = [[(f q).1], [(f q).2]] := by
  rw [projectCoordinates_eq]; simp [applyProjTbl]

theorem gen_profile_eq_model (p : Predict) (ncomp : Nat) (h1 : 1 ≤ ncomp) (p1 p2 : Rat × Rat) (size : Int) (proj : Option (Proj × Proj))
    (extra : List Rat) (dims : Option (String × String)) (names : Option (List String)) :
    Gen.profile p ncomp Gen.baseDims Gen.baseExtraCoordsName Gen.baseDataNamesDefaults [[p1.1], [p1.2]] [[p2.1], [p2.2]] size extra dims names
        (proj.map fun fg b => if b then fg.2.apply else fg.1.apply)
      = profileModel p ncomp p1 p2 size proj extra dims names := by
  unfold Gen.profile profileModel
  rw [gen_get_dims]
  cases proj with
  | none =>
    simp only [Option.map_none, bind, Except.bind, pure, Except.pure, profileCoordinatesTbl, List.getD_cons_zero, List.getD_cons_succ, List.headD_cons]
    cases profilePoints p1 p2 size with
    | error e => rfl
    | ok pts =>
      simp only [predictTbl_length, gen_get_data_names ncomp h1, gen_extra_coords_names]
      cases getDataNames ncomp names with
      | error e => rfl
      | ok nm =>
        simp [predictTbl, List.zip_map', Function.comp_def]
  | some fg =>
    obtain ⟨f, g⟩ := fg
    simp only [Option.map_some, bind, Except.bind, pure, Except.pure, profileCoordinatesTbl, projectCoordinates_point,
      List.getD_cons_zero, List.getD_cons_succ, List.headD_cons, Bool.false_eq_true, if_false, if_true]
    cases profilePoints (f.apply p1) (f.apply p2) size with
    | error e => rfl
    | ok pts =>
      simp only [predictTbl_length, gen_get_data_names ncomp h1, gen_extra_coords_names, projectCoordinates_drop2]
      cases getDataNames ncomp names with
      | error e => rfl
      | ok nm =>
        simp only [predictTbl, projectCoordinates_getD0, projectCoordinates_getD1, projectCoordinates_length]
        simp [List.zip_map', Function.comp_def]

/-! ### `src_*`: the property stated directly about the regenerated definitions -/

/-- `scatter()` as the source has it: northing column = second scatter axis, easting column = first, then one column per name. -/
theorem src_scatter_rows (p : Predict) (ncomp : Nat) (h1 : 1 ≤ ncomp) (w e s n : Rat) (hwe : w ≤ e) (hsn : s ≤ n) (ue un : List Rat)
    (names : List String) (hnm : names.length = ncomp) :
    Gen.scatter p ncomp Gen.baseDims Gen.baseExtraCoordsName Gen.baseDataNamesDefaults none (some [w, e, s, n]) [ue, un] [] none (some names) none =
      .ok (("northing", scatterAxis s n un) :: ("easting", scatterAxis w e ue) ::
        names.zip ((List.range ncomp).map fun k =>
          ((scatterAxis w e ue).zip (scatterAxis s n un)).map fun q => (p q).getD k 0)) :=
  (gen_scatter_eq_model p ncomp h1 none (some [w, e, s, n]) ue un [] none id none (some names)).trans
    (scatter_rows p ncomp w e s n hwe hsn ue un names hnm)

/-- `profile()` as the source has it: predictions at the projected profile points, coordinates mapped back with the inverse projection,
    distances in projected units. -/
theorem src_profile_rows (p : Predict) (ncomp : Nat) (h1 : 1 ≤ ncomp) (p1 p2 : Rat × Rat) (size : Int)
    (f g : Proj) (extra : List Rat) (names : List String) (hnm : names.length = ncomp)
    (pts : List (Rat × Rat × Rat)) (hpts : profilePoints (f.apply p1) (f.apply p2) size = .ok pts) :
    Gen.profile p ncomp Gen.baseDims Gen.baseExtraCoordsName Gen.baseDataNamesDefaults [[p1.1], [p1.2]] [[p2.1], [p2.2]] size extra none (some names)
        (some fun b => if b then g.apply else f.apply) =
      .ok (("northing", pts.map fun q => (g.apply (q.1, q.2.1)).2) ::
           ("easting", pts.map fun q => (g.apply (q.1, q.2.1)).1) ::
           ("distance", pts.map fun q => q.2.2) ::
           ((extraCoordNames extra.length).zip (extra.map fun v => pts.map fun _ => v)) ++
           names.zip ((List.range ncomp).map fun k => pts.map fun q => (p (q.1, q.2.1)).getD k 0)) :=
  (gen_profile_eq_model p ncomp h1 p1 p2 size (some (f, g)) extra none (some names)).trans
    (profile_rows p ncomp p1 p2 size f g extra names hnm pts hpts)

/-- A gridder that was never fitted and is given no region refuses to scatter. -/
theorem src_scatter_no_region (p : Predict) (ncomp : Nat) (vs : List (List Rat)) (extra : List Rat) (d : Option (String × String))
    (nm : Option (List String)) (pr : Option (Bool → Rat × Rat → Rat × Rat)) :
    Gen.scatter p ncomp Gen.baseDims Gen.baseExtraCoordsName Gen.baseDataNamesDefaults none none vs extra d nm pr = .error .valueError := rfl

/-! ### `BaseGridder.grid` as regenerated from the source -/

theorem zipWith_zipWith_both {α β γ δ ε : Type} (g : γ → δ → ε) (a : α → β → γ) (b : α → β → δ) (l1 : List α) (l2 : List β) :
    List.zipWith g (List.zipWith a l1 l2) (List.zipWith b l1 l2) = List.zipWith (fun x y => g (a x y) (b x y)) l1 l2 := by
  induction l1 generalizing l2 with
  | nil => simp
  | cons x xs ih => cases l2 with
    | nil => simp
    | cons y ys => simp [ih]

theorem predictOn_projected (p : Predict) (pr : Proj) (E N : Arr2) (k : Nat) :
    predictOn p none (List.zipWith (List.zipWith fun x y => (pr.apply (x, y)).1) E N) (List.zipWith (List.zipWith fun x y => (pr.apply (x, y)).2) E N) k
      = predictOn p (some pr) E N k := by
  unfold predictOn
  rw [zipWith_zipWith_both]
  congr 1
  funext re rn
  rw [zipWith_zipWith_both]

theorem projectCoordinatesN_eq (cs : List CoordArr) (f : Rat × Rat → Rat × Rat) :
    Gen.projectCoordinatesN cs f = applyProjTblN f (cs.take 2) ++ cs.drop 2 := by
  unfold Gen.projectCoordinatesN
  by_cases h : cs.length > 2
  · simp [h, Id.run, pure]
  · have : cs.drop 2 = [] := List.drop_eq_nil_of_le (by omega)
    simp [h, Id.run, pure, this]

/-- The coordinate tuple handed to the translated `grid`. -/
def coordsTuple (c : CoordArr × CoordArr × List Arr2) : List CoordArr := c.1 :: c.2.1 :: c.2.2.map .d2

/-- Everything `grid` does once the coordinate arrays are settled. -/
theorem grid_tail (p : Predict) (ncomp : Nat) (h1 : 1 ≤ ncomp) (E N : Arr2) (ex : List Arr2) (proj : Option Proj) (inv : Rat × Rat → Rat × Rat)
    (dims : Option (String × String)) (names : Option (List String)) :
    (do
      let data ← (match proj.map fun pr (b : Bool) => if b then inv else pr.apply with
        | some projection => do
          let data := (predictTblN p ncomp (Gen.projectCoordinatesN (.d2 E :: .d2 N :: ex.map .d2) (projection false)))
          pure data
        | none => do
          let data := (predictTblN p ncomp (.d2 E :: .d2 N :: ex.map .d2))
          pure data)
      let dims := (Gen.getDims Gen.baseDims dims)
      let data_names ← Gen.getDataNames Gen.baseDataNamesDefaults data.length names
      let extra_coords_names := (Gen.getExtraCoordsNames Gen.baseExtraCoordsName (CoordArr.d2 E :: .d2 N :: ex.map .d2))
      let dataset ← makeXarrayGridN (.d2 E :: .d2 N :: ex.map .d2) data data_names dims extra_coords_names
      return dataset : Except Err Dataset)
    = (do
      let data := (List.range ncomp).map fun k => predictOn p proj E N k
      let dims := dims.getD ("northing", "easting")
      let names ← getDataNames ncomp names
      makeGrid (.d2 E) (.d2 N) ex (some data) (some names) dims (some (extraCoordNames ex.length))) := by
  have hex : (ex.map CoordArr.d2).map (·.arr2) = ex := by simp [Function.comp_def, CoordArr.arr2]
  cases proj with
  | none =>
    simp only [Option.map_none, bind, Except.bind, pure, Except.pure, predictTblN, List.length_map, List.length_range,
      gen_get_data_names ncomp h1, gen_get_dims, gen_extra_coords_names]
    cases getDataNames ncomp names with
    | error e => rfl
    | ok nm =>
      simp only [makeXarrayGridN, List.map_map, Function.comp_def, CoordArr.arr2, List.length_cons, List.length_map, List.map_id', gen_extra_coords_names]
      rfl
  | some pr =>
    simp only [Option.map_some, bind, Except.bind, pure, Except.pure, projectCoordinatesN_eq, List.take_succ_cons, List.take_zero,
      List.drop_succ_cons, List.drop_zero, applyProjTblN, List.cons_append, List.nil_append, predictTblN, List.length_map, List.length_range,
      gen_get_data_names ncomp h1, gen_get_dims, gen_extra_coords_names, Bool.false_eq_true, if_false, predictOn_projected]
    cases getDataNames ncomp names with
    | error e => rfl
    | ok nm =>
      simp only [makeXarrayGridN, List.map_map, Function.comp_def, CoordArr.arr2, List.length_cons, List.length_map, List.map_id', gen_extra_coords_names]
      rfl

theorem gen_grid_eq_model (p : Predict) (ncomp : Nat) (h1 : 1 ≤ ncomp) (a : GridArgs) (inv : Rat × Rat → Rat × Rat) :
    Gen.grid p ncomp Gen.baseDims Gen.baseExtraCoordsName Gen.baseDataNamesDefaults a.regionDefault a.region a.shape a.spacing a.adjust a.pixel
        a.extra a.dims a.dataNames (a.proj.map fun pr (b : Bool) => if b then inv else pr.apply) (a.coords.map coordsTuple)
      = gridModel p ncomp a := by
  unfold Gen.grid gridModel
  cases hc : a.coords with
  | none =>
    simp only [Option.map_none, Option.isSome_none, Bool.false_eq_true, false_and, if_false, Bool.false_and, gen_get_instance_region,
      bind, Except.bind, pure, Except.pure]
    cases (a.region.orElse fun _ => a.regionDefault) with
    | none => rfl
    | some reg =>
      simp only [gridCoordinatesN, gridCoordinates, bind, Except.bind, pure, Except.pure]
      cases gridLines reg ⟨a.shape, a.spacing, a.adjust, a.pixel⟩ with
      | error e => rfl
      | ok en =>
        obtain ⟨east, north⟩ := en
        exact grid_tail p ncomp h1 _ _ _ a.proj inv a.dims a.dataNames
  | some c =>
    obtain ⟨ce, cn, ex⟩ := c
    by_cases hs : (a.spacing.isSome || a.shape.isSome) = true
    · have hs' : a.spacing.isSome = true ∨ a.shape.isSome = true := by simpa using hs
      simp [hs, hs', bind, Except.bind, throw, throwThe, MonadExceptOf.throw]
    · have hs' : ¬ (a.spacing.isSome = true ∨ a.shape.isSome = true) := by simpa using hs
      by_cases hr : a.region.isSome = true
      · simp [hs, hs', hr, bind, Except.bind, throw, throwThe, MonadExceptOf.throw]
      · simp only [Option.map_some, Option.isSome_some, true_and, hs, hs', hr, if_false, Bool.and_false, Bool.false_eq_true, and_false, coordsTuple,
          bind, Except.bind, pure, Except.pure, List.take_succ_cons, List.take_zero]
        cases ce with
        | d1 e => cases cn with
          | d1 n =>
            simp only [getNdimHorizontalCoords, if_true, meshgridFrom1dN, List.all_map, Function.comp_def, CoordArr.arr2]
            by_cases hx : (ex.all fun x => isRect x n.length e.length) = true
            · simp only [hx, if_true]
              exact grid_tail p ncomp h1 _ _ _ a.proj inv a.dims a.dataNames
            · simp [hx]
          | d2 N => rfl
        | d2 E => cases cn with
          | d1 n => rfl
          | d2 N =>
            simp only [getNdimHorizontalCoords, checkMeshgridN, List.map_map, Function.comp_def, CoordArr.arr2, List.map_id', bind, Except.bind]
            cases meshgridTo1d E N ex with
            | error e => rfl
            | ok v => exact grid_tail p ncomp h1 _ _ _ a.proj inv a.dims a.dataNames

/-- The placement theorem stated directly about the regenerated `grid`: for a region (given or the fitted `region_`) and any
    shape/spacing/adjust/registration whose coordinate lines are `(east, north)`, the source's `grid()` returns those coordinate vectors, the
    requested or default dims, and variable `k` holding at row `i`, column `j` the prediction at `(east[j], north[i])` (projected if requested). -/
theorem src_grid_placement (p : Predict) (ncomp : Nat) (h1 : 1 ≤ ncomp) (a : GridArgs) (inv : Rat × Rat → Rat × Rat)
    (reg east north : List Rat) (names : List String)
    (hc : a.coords = none) (hreg : (a.region.orElse fun _ => a.regionDefault) = some reg)
    (hl : gridLines reg ⟨a.shape, a.spacing, a.adjust, a.pixel⟩ = .ok (east, north))
    (he : east ≠ []) (hn : north ≠ []) (hnames : getDataNames ncomp a.dataNames = .ok names) :
    Gen.grid p ncomp Gen.baseDims Gen.baseExtraCoordsName Gen.baseDataNamesDefaults a.regionDefault a.region a.shape a.spacing a.adjust a.pixel
        a.extra a.dims a.dataNames (a.proj.map fun pr (b : Bool) => if b then inv else pr.apply) (a.coords.map coordsTuple)
      = .ok ⟨a.dims.getD ("northing", "easting"), east, north,
      (extraCoordNames a.extra.length).zip (a.extra.map fun v => north.map fun _ => east.map fun _ => v),
      names.zip ((List.range ncomp).map fun k =>
        north.map fun y => east.map fun x => (p (applyProj a.proj (x, y))).getD k 0)⟩ :=
  (gen_grid_eq_model p ncomp h1 a inv).trans (grid_placement p ncomp a reg east north names hc hreg hl he hn hnames)

/-- The source's `grid()` refuses coordinates together with a shape or spacing, and coordinates together with a region. -/
theorem src_grid_rejects (p : Predict) (ncomp : Nat) (h1 : 1 ≤ ncomp) (a : GridArgs) (inv : Rat × Rat → Rat × Rat)
    (hc : a.coords.isSome = true) (h : (a.spacing.isSome = true ∨ a.shape.isSome = true) ∨ a.region.isSome = true) :
    Gen.grid p ncomp Gen.baseDims Gen.baseExtraCoordsName Gen.baseDataNamesDefaults a.regionDefault a.region a.shape a.spacing a.adjust a.pixel
        a.extra a.dims a.dataNames (a.proj.map fun pr (b : Bool) => if b then inv else pr.apply) (a.coords.map coordsTuple)
      = .error .valueError := by
  rw [gen_grid_eq_model p ncomp h1 a inv]
  rcases h with h | h
  · exact coordinates_plus_shape_rejected p ncomp a hc (by simpa using h)
  · exact coordinates_plus_region_rejected p ncomp a hc h

/-! Non-vacuity -/
example : (gridModel (polyPredict [(0, 2, 1000, 1/8)]) 1
    ⟨some [0, 4, 0, 2], none, some (2, 3), none, .spacing, false, [], none, none, none, none⟩).toOption.map (·.vars)
    = some [("scalars", [[0, 4, 8], [2000, 4009/2, 2009]])] := by decide +kernel

/-! ## `profile_coordinates` as regenerated from the source, trigonometry included (Gen/Profile.lean) -/

theorem norm_mk (dx dy : ℝ) : ‖(⟨dx, dy⟩ : ℂ)‖ = Real.sqrt (dx ^ 2 + dy ^ 2) := by
  rw [Complex.norm_eq_sqrt_sq_add_sq]

/-- The trigonometry of `profile_coordinates` is exact: `hypot(dx, dy)·cos(arctan2(dy, dx)) = dx` and `…·sin(…) = dy`, also for `dx = dy = 0`. -/
theorem hypot_cos (dx dy : ℝ) : Real.sqrt (dx ^ 2 + dy ^ 2) * Real.cos (Gen.arctan2 dy dx) = dx := by
  unfold Gen.arctan2
  by_cases h : (⟨dx, dy⟩ : ℂ) = 0
  · have h1 : dx = 0 := by simpa using congrArg Complex.re h
    have h2 : dy = 0 := by simpa using congrArg Complex.im h
    subst h1 h2; simp
  · rw [Complex.cos_arg h, ← norm_mk]
    have : ‖(⟨dx, dy⟩ : ℂ)‖ ≠ 0 := by simpa using h
    field_simp

theorem hypot_sin (dx dy : ℝ) : Real.sqrt (dx ^ 2 + dy ^ 2) * Real.sin (Gen.arctan2 dy dx) = dy := by
  unfold Gen.arctan2
  by_cases h : (⟨dx, dy⟩ : ℂ) = 0
  · have h1 : dx = 0 := by simpa using congrArg Complex.re h
    have h2 : dy = 0 := by simpa using congrArg Complex.im h
    subst h1 h2; simp
  · rw [Complex.sin_arg, ← norm_mk]
    have : ‖(⟨dx, dy⟩ : ℂ)‖ ≠ 0 := by simpa using h
    field_simp
/-- The fraction of the way along the profile of sample `t` out of `n`. -/
noncomputable def fracR (n t : Nat) : ℝ := if n = 1 then 0 else (t : ℝ) / ((n : ℝ) - 1)

theorem linspace_zero (sep : ℝ) (n : Nat) : Gen.linspaceR 0 sep n = (List.range n).map fun t => fracR n t * sep := by
  unfold Gen.linspaceR fracR
  apply List.map_congr_left
  intro k _
  by_cases h : n = 1
  · simp [h]
  · simp only [h, if_false]; ring

/-- **`profile_coordinates` as regenerated from the source, with its square root, arctangent, cosine and sine:** for a positive size the points
    are `point1 + t/(size−1)·(point2 − point1)`, `t = 0 … size−1` (all equal to `point1` when `size = 1` or the two points coincide), each
    extra coordinate is constant along the profile, and the distances are `t/(size−1)·|point2 − point1|`. -/
theorem gen_profile_coordinates_points (p1 p2 : ℝ × ℝ) (size : Int) (hs : 0 < size) (ex : Option (List ℝ)) :
    Gen.profileCoordinates p1 p2 size ex = .ok (
      (match ex with
        | some ex => [(List.range size.toNat).map fun t => p1.1 + fracR size.toNat t * (p2.1 - p1.1),
                      (List.range size.toNat).map fun t => p1.2 + fracR size.toNat t * (p2.2 - p1.2)]
                     ++ ex.map fun v => (List.range size.toNat).map fun _ => v
        | none => [(List.range size.toNat).map fun t => p1.1 + fracR size.toNat t * (p2.1 - p1.1),
                   (List.range size.toNat).map fun t => p1.2 + fracR size.toNat t * (p2.2 - p1.2)]),
      (List.range size.toNat).map fun t => fracR size.toNat t * Real.sqrt ((p2.1 - p1.1) ^ 2 + (p2.2 - p1.2) ^ 2)) := by
  unfold Gen.profileCoordinates
  have hs' : ¬ size ≤ 0 := by omega
  simp only [hs', if_false, linspace_zero, List.map_map, Function.comp_def]
  have hc : ∀ t : Nat, p1.1 + fracR size.toNat t * Real.sqrt ((p2.1 - p1.1) ^ 2 + (p2.2 - p1.2) ^ 2) * Real.cos (Gen.arctan2 (p2.2 - p1.2) (p2.1 - p1.1))
      = p1.1 + fracR size.toNat t * (p2.1 - p1.1) := by
    intro t; rw [mul_assoc, hypot_cos]
  have hsn : ∀ t : Nat, p1.2 + fracR size.toNat t * Real.sqrt ((p2.1 - p1.1) ^ 2 + (p2.2 - p1.2) ^ 2) * Real.sin (Gen.arctan2 (p2.2 - p1.2) (p2.1 - p1.1))
      = p1.2 + fracR size.toNat t * (p2.2 - p1.2) := by
    intro t; rw [mul_assoc, hypot_sin]
  simp only [hc, hsn]
  cases ex with
  | none => rfl
  | some ex => simp [Function.comp_def]
theorem fracR_cast (n t : Nat) : fracR n t = ((if n = 1 then (0 : Rat) else (t : Rat) / ((n : Rat) - 1) : Rat) : ℝ) := by
  unfold fracR
  by_cases h : n = 1
  · simp [h]
  · simp [h]

theorem fracR_nonneg (n t : Nat) (hn : 0 < n) : 0 ≤ fracR n t := by
  unfold fracR
  by_cases h : n = 1
  · simp [h]
  · simp only [h, if_false]
    apply div_nonneg (Nat.cast_nonneg t)
    have : (1 : ℝ) ≤ n := by exact_mod_cast hn
    linarith

/-- **Bridge.**  For rational end points the regenerated `profile_coordinates` returns exactly the model's points (`profilePoints`, in exact
    arithmetic) and distances whose squares are the model's squared distances, all non-negative — and both refuse a size that is not positive. -/
theorem gen_profile_coordinates_eq_model (p1 p2 : Rat × Rat) (size : Int) (extra : List Rat) :
    (size ≤ 0 → profilePoints p1 p2 size = .error .valueError ∧
        Gen.profileCoordinates ((p1.1 : ℝ), (p1.2 : ℝ)) ((p2.1 : ℝ), (p2.2 : ℝ)) size (some (extra.map fun (v : Rat) => (v : ℝ))) = .error .valueError) ∧
    (0 < size → ∃ pts ds, profilePoints p1 p2 size = .ok pts ∧
        Gen.profileCoordinates ((p1.1 : ℝ), (p1.2 : ℝ)) ((p2.1 : ℝ), (p2.2 : ℝ)) size (some (extra.map fun (v : Rat) => (v : ℝ)))
          = .ok ([pts.map fun (p : Rat × Rat × Rat) => (p.1 : ℝ), pts.map fun (p : Rat × Rat × Rat) => (p.2.1 : ℝ)]
                  ++ extra.map (fun (v : Rat) => pts.map fun _ => (v : ℝ)), ds) ∧
        ds.map (fun d => d ^ 2) = pts.map (fun (p : Rat × Rat × Rat) => (p.2.2 : ℝ)) ∧ ∀ d ∈ ds, 0 ≤ d) := by
  constructor
  · intro h
    simp [profilePoints, Gen.profileCoordinates, h]
  · intro h
    have hs' : ¬ size ≤ 0 := by omega
    have hn : 0 < size.toNat := by omega
    refine ⟨_, (List.range size.toNat).map fun t => fracR size.toNat t * Real.sqrt (((p2.1 : ℝ) - (p1.1 : ℝ)) ^ 2 + ((p2.2 : ℝ) - (p1.2 : ℝ)) ^ 2),
      by simp only [profilePoints, hs', if_false]; rfl, ?_, ?_, ?_⟩
    · rw [gen_profile_coordinates_points _ _ size h]
      simp only [List.map_map, Function.comp_def, fracR_cast]
      push_cast
      rfl
    · simp only [List.map_map, Function.comp_def]
      apply List.map_congr_left
      intro t _
      rw [mul_pow, Real.sq_sqrt (by positivity), fracR_cast]
      push_cast
      ring
    · intro d hd
      obtain ⟨t, _, rfl⟩ := List.mem_map.mp hd
      exact mul_nonneg (fracR_nonneg _ _ hn) (Real.sqrt_nonneg _)

end Verde.C05
