/-
  C05 — grid/profile/scatter place each prediction at the right coordinate.
  All theorems hold for EVERY `predict` (so also asymmetric ones) and every projection.
-/
import VerdeModel.Model.Gridder
import VerdeModel.Lemmas.Grid
import VerdeModel.Lemmas.Coords
namespace Verde.C05
open Verde

def applyProj (proj : Option Proj) (q : Rat × Rat) : Rat × Rat :=
  match proj with | some pr => pr.apply q | none => q

/-- Predicting on a meshgrid: cell `(i, j)` holds the prediction at `(east[j], north[i])` (projected if requested). -/
theorem predictOn_meshgrid (p : Predict) (proj : Option Proj) (east north : List Rat) (k : Nat) :
    predictOn p proj (meshgrid east north).1 (meshgrid east north).2 k =
      north.map fun y => east.map fun x => (p (applyProj proj (x, y))).getD k 0 := by
  unfold predictOn meshgrid applyProj
  simp only [List.zipWith_map_left, List.zipWith_map_right, List.zipWith_self]
  apply List.map_congr_left
  intro y _
  simp [List.zipWith_self]
  intro a _; rfl

/-- **Placement.**  For a region (given, or the gridder's `region_`) and any shape/spacing/adjust/registration whose
    coordinate lines are `(east, north)` (C07 normal forms), `grid()` returns the Dataset with exactly those coordinate
    vectors, dims `(northing, easting)` (or the requested ones), and variable `k` holding at row `i`, column `j` the prediction
    at `(east[j], north[i])` — taken at the projected point when a projection is given, while the coordinates stay
    unprojected.  Never transposed, flipped or shifted. -/
theorem grid_placement (p : Predict) (ncomp : Nat) (a : GridArgs) (reg east north : List Rat) (names : List String)
    (hc : a.coords = none) (hreg : (a.region.orElse fun _ => a.regionDefault) = some reg)
    (hl : gridLines reg ⟨a.shape, a.spacing, a.adjust, a.pixel⟩ = .ok (east, north))
    (he : east ≠ []) (hn : north ≠ []) (hnames : getDataNames ncomp a.dataNames = .ok names) :
    gridModel p ncomp a = .ok ⟨a.dims.getD ("northing", "easting"), east, north,
      (extraCoordNames a.extra.length).zip (a.extra.map fun v => north.map fun _ => east.map fun _ => v),
      names.zip ((List.range ncomp).map fun k =>
        north.map fun y => east.map fun x => (p (applyProj a.proj (x, y))).getD k 0)⟩ := by
  have hgc : gridCoordinates reg ⟨a.shape, a.spacing, a.adjust, a.pixel⟩ a.extra =
      .ok ((meshgrid east north).1 :: (meshgrid east north).2 ::
            a.extra.map fun v => north.map fun _ => east.map fun _ => v) := by
    simp [gridCoordinates, hl, bind, Except.bind, pure, Except.pure]
  have hnl : names.length = ncomp := by
    unfold getDataNames at hnames
    cases hd : a.dataNames with
    | none =>
      rw [hd] at hnames
      simp only [] at hnames
      match ncomp, hnames with
      | 1, h => cases h; rfl
      | 2, h => cases h; rfl
      | 3, h => cases h; rfl
    | some ns =>
      rw [hd] at hnames
      simp only [] at hnames
      split_ifs at hnames with h
      cases hnames; exact h
  have hexrect : ((a.extra.map fun v => north.map fun _ => east.map fun _ => v).all
      fun x => isRect x north.length east.length) = true := by
    simp [isRect]
  have hto1d := meshgridTo1d_meshgrid east north _ he hn hexrect
  have hdatarect : (((a.extra.map fun v => north.map fun _ => east.map fun _ => v) ++
      (List.range ncomp).map fun k => north.map fun y => east.map fun x => (p (applyProj a.proj (x, y))).getD k 0).all
      fun x => isRect x north.length east.length) = true := by
    simp [isRect]
  unfold gridModel
  simp only [hc, Option.isSome_none, Bool.false_and, Bool.false_eq_true, if_false, hreg, hgc, bind, Except.bind,
    pure, Except.pure, hnames, predictOn_meshgrid]
  unfold makeGrid
  simp only [hto1d, bind, Except.bind, pure, Except.pure, checkNames, List.length_map, List.length_range, hnl,
    if_true, hdatarect, extraCoordNames, Bool.not_true, Bool.false_eq_true, if_false]
  cases hex : a.extra with
  | nil => simp
  | cons v vs => simp

/-- Cell form of the placement theorem. -/
theorem grid_value_at (p : Predict) (proj : Option Proj) (east north : List Rat) (k i j : Nat)
    (hi : i < north.length) (hj : j < east.length) :
    ((north.map fun y => east.map fun x => (p (applyProj proj (x, y))).getD k 0)[i]?.bind (·[j]?)) =
      some ((p (applyProj proj (east[j], north[i]))).getD k 0) := by
  simp [List.getElem?_map, List.getElem?_eq_getElem hi, List.getElem?_eq_getElem hj]

/-- Default data-variable names follow the number of components; more than three unnamed components are rejected. -/
theorem data_names_default :
    getDataNames 1 none = .ok ["scalars"] ∧ getDataNames 2 none = .ok ["east_component", "north_component"] ∧
    getDataNames 3 none = .ok ["east_component", "north_component", "vertical_component"] ∧
    (∀ n, 3 < n → getDataNames n none = .error .valueError) := by
  refine ⟨rfl, rfl, rfl, ?_⟩
  intro n hn
  match n, hn with
  | n + 4, _ => rfl

theorem custom_names_checked (n : Nat) (names : List String) :
    getDataNames n (some names) = if names.length = n then .ok names else .error .valueError := rfl

theorem extra_coord_names (n : Nat) :
    (extraCoordNames n).length = n ∧ (0 < n → (extraCoordNames n)[0]? = some "extra_coord") ∧
    (∀ i, 0 < i → i < n → (extraCoordNames n)[i]? = some ("extra_coord_" ++ toString i)) := by
  refine ⟨by simp [extraCoordNames], ?_, ?_⟩
  · intro h; simp [extraCoordNames, List.getElem?_map, List.getElem?_range h]
  · intro i hi hin
    have : i ≠ 0 := by omega
    simp [extraCoordNames, List.getElem?_map, List.getElem?_range hin, this]

/-- Rejections: coordinates together with shape/spacing or with a region; no region at all. -/
theorem coordinates_plus_shape_rejected (p : Predict) (ncomp : Nat) (a : GridArgs)
    (hc : a.coords.isSome = true) (hs : a.spacing.isSome = true ∨ a.shape.isSome = true) :
    gridModel p ncomp a = .error .valueError := by
  unfold gridModel
  have : (a.coords.isSome && (a.spacing.isSome || a.shape.isSome)) = true := by
    rcases hs with h | h <;> simp [hc, h]
  simp [this, bind, Except.bind]

theorem coordinates_plus_region_rejected (p : Predict) (ncomp : Nat) (a : GridArgs)
    (hc : a.coords.isSome = true) (hr : a.region.isSome = true) :
    gridModel p ncomp a = .error .valueError := by
  unfold gridModel
  simp only [bind, Except.bind]
  split_ifs <;> simp_all

theorem no_region_rejected (p : Predict) (ncomp : Nat) (a : GridArgs)
    (hc : a.coords = none) (hr : a.region = none) (hd : a.regionDefault = none) :
    gridModel p ncomp a = .error .valueError := by
  unfold gridModel
  simp [hc, hr, hd, bind, Except.bind]

/-- `profile()`: `size` points evenly spaced on the projected segment, predictions taken there, distances in projected
    units, coordinates mapped back through the inverse projection. -/
theorem profile_rows (p : Predict) (ncomp : Nat) (p1 p2 : Rat × Rat) (size : Int)
    (f g : Proj) (extra : List Rat) (names : List String) (hnm : names.length = ncomp)
    (pts : List (Rat × Rat × Rat)) (hpts : profilePoints (f.apply p1) (f.apply p2) size = .ok pts) :
    profileModel p ncomp p1 p2 size (some (f, g)) extra none (some names) =
      .ok (("northing", pts.map fun q => (g.apply (q.1, q.2.1)).2) ::
           ("easting", pts.map fun q => (g.apply (q.1, q.2.1)).1) ::
           ("distance", pts.map fun q => q.2.2) ::
           ((extraCoordNames extra.length).zip (extra.map fun v => pts.map fun _ => v)) ++
           names.zip ((List.range ncomp).map fun k => pts.map fun q => (p (q.1, q.2.1)).getD k 0)) := by
  simp [profileModel, hpts, getDataNames, hnm, bind, Except.bind, pure, Except.pure, Function.comp]

/-- `scatter()` predicts at the scatter points of the region (variates supplied), which lie inside the region (C13). -/
theorem scatter_rows (p : Predict) (ncomp : Nat) (w e s n : Rat) (hwe : w ≤ e) (hsn : s ≤ n) (ue un : List Rat)
    (names : List String) (hnm : names.length = ncomp) :
    scatterModel p ncomp none (some [w, e, s, n]) ue un [] none none (some names) =
      .ok (("northing", scatterAxis s n un) :: ("easting", scatterAxis w e ue) ::
        names.zip ((List.range ncomp).map fun k =>
          ((scatterAxis w e ue).zip (scatterAxis s n un)).map fun q => (p q).getD k 0)) := by
  simp [scatterModel, scatterPoints, checkRegion, not_lt.mpr hwe, not_lt.mpr hsn, getDataNames, hnm, extraCoordNames,
    bind, Except.bind, pure, Except.pure]

/-! Non-vacuity -/
example : (gridModel (polyPredict [(0, 2, 1000, 1/8)]) 1
    ⟨some [0, 4, 0, 2], none, some (2, 3), none, .spacing, false, [], none, none, none, none⟩).toOption.map (·.vars)
    = some [("scalars", [[0, 4, 8], [2000, 4009/2, 2009]])] := by decide +kernel

end Verde.C05
