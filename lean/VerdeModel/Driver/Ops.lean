/-
  Line-protocol operations: decode arguments, call the model, encode the result.
  Core Lean only (linked into the `verde_model` executable).
-/
import VerdeModel.Model.Coords
import VerdeModel.Model.Blocks
import VerdeModel.Model.Windows
import VerdeModel.Model.Grid
import VerdeModel.Model.CV
import VerdeModel.Model.Score
import VerdeModel.Model.Gridder
import VerdeModel.Model.LinAlg
import VerdeModel.Model.Kernels
import VerdeModel.Model.Neighbors
import VerdeModel.Model.Chain
import VerdeModel.Model.Surfer
import VerdeModel.Model.Hull
import VerdeModel.Model.Lifecycle
namespace Verde
open Val

def argAt (α : Type) [FromVal α] (args : List Val) (i : Nat) : Option α :=
  match args[i]? with
  | some v => fromVal v
  | none => none

def parseAdjust : String → Adjust
  | "spacing" => .spacing
  | "region" => .region
  | _ => .bad

instance : FromVal Adjust := ⟨fun v => match v with | .atom s => some (parseAdjust s) | _ => none⟩

def regionOfList (r : List Rat) : Option Region :=
  match r with
  | [w, e, s, n] => some ⟨w, e, s, n⟩
  | _ => none

def parseProj (kind : String) (ps : List Rat) : Option Proj :=
  match kind, ps with
  | "affine", [a, b, c, d] => some (.affine a b c d)
  | "cube", [k] => some (.cube k)
  | "square", [] => some .square
  | "shear", [k] => some (.shear k)
  | "lin", [a, b, c, d, e, f] => some (.lin a b c d e f)
  | "radial", [a, b] => some (.radial a b)
  | _, _ => none

/-- NaN-able list: atoms `nan` become `none`. -/
def optRats (v : Val) : Option (List (Option Rat)) :=
  match v with
  | .list xs => xs.mapM fun x => match x with
      | .atom "nan" => some none
      | x => (fromVal x : Option Rat).map some
  | _ => none

def opsCoords (op : String) (a : List Val) : Option Val :=
  match op with
  | "line" => do
      let r := lineCoordinates (← argAt Rat a 0) (← argAt Rat a 1) (← argAt (Option Nat) a 2)
        (← argAt (Option Rat) a 3) (← argAt Adjust a 4) (← argAt Bool a 5)
      pure (toVal r)
  | "s2s" => do
      let (sz, stop) := spacingToSize (← argAt Rat a 0) (← argAt Rat a 1) (← argAt Rat a 2)
        ((← argAt Adjust a 3) == .region)
      pure (toVal (sz, stop))
  | "grid" => do
      let g : GridSpec := ⟨← argAt (Option (Nat × Nat)) a 1, ← argAt (Option (List Rat)) a 2,
        ← argAt Adjust a 3, ← argAt Bool a 4⟩
      let region ← argAt (List Rat) a 0
      let extra ← argAt (List Rat) a 5
      let mesh ← argAt Bool a 6
      if mesh then pure (toVal (gridCoordinates region g extra))
      else if !extra.isEmpty then pure (toVal (Except.error Err.valueError : Except Err Nat))
      else pure (toVal ((gridLines region g).map fun (e, n) => [e, n]))
  | "shape2spacing" => do
      let r ← regionOfList (← argAt (List Rat) a 0)
      pure (toVal (shapeToSpacing r (← argAt (Nat × Nat) a 1) (← argAt Bool a 2)))
  | "profile" => do
      let r := profilePoints (← argAt (Rat × Rat) a 0) (← argAt (Rat × Rat) a 1) (← argAt Int a 2)
      pure (toVal (r.map fun pts => pts.map fun (x, y, d) => [x, y, d]))
  | "check_region" => do
      pure (toVal (checkRegion (← argAt (List Rat) a 0)))
  | "get_region" => do
      pure (toVal (getRegion (← argAt (List Rat) a 0) (← argAt (List Rat) a 1)))
  | "pad_region" => do
      let r ← regionOfList (← argAt (List Rat) a 0)
      pure (toVal (padRegion r (← argAt Rat a 1) (← argAt Rat a 2)))
  | "inside" => do
      let region ← argAt (List Rat) a 0
      let es ← optRats (← a[1]?)
      let ns ← optRats (← a[2]?)
      pure (toVal ((checkRegion region).map fun r => (es.zip ns).map fun (e, n) => insidePtOpt r e n))
  | "scatter" => do
      pure (toVal (scatterPoints (← argAt (List Rat) a 0) (← argAt (List Rat) a 1) (← argAt (List Rat) a 2)
        (← argAt (List Rat) a 3)))
  | "maxabs" => do
      pure (toVal (maxabs (← argAt (List (List Rat)) a 0)))
  | "project_region" => do
      let p ← parseProj (← argAt String a 1) (← argAt (List Rat) a 2)
      pure (toVal (projectRegion (← argAt (List Rat) a 0) p))
  | "lon" => do
      let r := lonContinuity (← argAt Rat a 0) (← argAt Rat a 1) (← argAt Rat a 2) (← argAt Rat a 3)
        (← argAt (List Rat) a 4) (← argAt (List Rat) a 5)
      pure (toVal r)
  | _ => none

def parseRed : String → Option (Option Red)
  | "mean" => some (some .mean) | "median" => some (some .median) | "sum" => some (some .sum)
  | "min" => some (some .min) | "max" => some (some .max) | "average" => some none | _ => none

def blockSpecAt (a : List Val) (i : Nat) : Option BlockSpec := do
  pure ⟨← argAt (Option (List Rat)) a i, ← argAt (Option (Nat × Nat)) a (i + 1),
        ← argAt (Option (List Rat)) a (i + 2), ← argAt Adjust a (i + 3)⟩

def opsBlocks (op : String) (a : List Val) : Option Val :=
  match op with
  | "block_split" => do
      let r := blockSplit (← argAt (List Rat) a 0) (← argAt (List Rat) a 1) (← blockSpecAt a 2)
      pure (toVal (r.map fun (p : List (Rat × Rat) × List Nat) => (p.1.map fun (c : Rat × Rat) => [c.1, c.2], p.2)))
  | "block_reduce" => do
      let r := blockReduce (← argAt (List (List Rat)) a 0) (← argAt (List (List Rat)) a 1)
        (← argAt (Option (List (List Rat))) a 2) (← blockSpecAt a 3)
        ⟨← parseRed (← argAt String a 7), ← argAt Bool a 8, ← argAt Bool a 9⟩
      pure (toVal r)
  | "block_mean" => do
      let r := blockMean (← argAt (List (List Rat)) a 0) (← argAt (List (List Rat)) a 1)
        (← argAt (Option (List (List Rat))) a 2) (← blockSpecAt a 3)
        (← argAt Bool a 7) (← argAt Bool a 8) (← argAt Bool a 9)
      pure (toVal (r.map fun (c, m, w) => [c, m, w]))
  | "v2w" => do
      pure (toVal (varianceToWeights (← optRats (← a[0]?))))
  | "v2w_tol" => do      -- explicit tolerance (exact rational of the double passed to the implementation)
      pure (toVal (varianceToWeights (← optRats (← a[0]?)) (← argAt Rat a 1)))
  | _ => none

def opsWindows (op : String) (a : List Val) : Option Val :=
  match op with
  | "rolling" => do
      let r := rollingWindow (← argAt (List Rat) a 0) (← argAt (List Rat) a 1) (← argAt Rat a 2) (← blockSpecAt a 3)
      pure (toVal (r.map fun o => (o.east, o.north, o.windows)))
  | "expanding" => do
      pure (toVal (expandingWindow (← argAt (List Rat) a 0) (← argAt (List Rat) a 1) (← argAt Rat a 2) (← argAt Rat a 3)
        (← argAt (List Rat) a 4)))
  | _ => none

def coordArrOf (v : Val) : Option CoordArr :=
  match (fromVal v : Option (List (List Rat))) with
  | some a => if a.isEmpty then none else some (.d2 a)
  | none => (fromVal v : Option (List Rat)).map .d1

instance : ToVal Dataset := ⟨fun ds => toVal (([ds.dims.1, ds.dims.2], ds.east, ds.north),
  (ds.extras.map fun (p : String × Arr2) => (p.1, p.2)), (ds.vars.map fun (p : String × Arr2) => (p.1, p.2)))⟩

def opsGrid (op : String) (a : List Val) : Option Val :=
  match op with
  | "make_grid" => do
      let r := makeGrid (← coordArrOf (← a[0]?)) (← coordArrOf (← a[1]?)) (← argAt (List Arr2) a 2)
        (← argAt (Option (List Arr2)) a 3) (← argAt (Option (List String)) a 4) (← argAt (String × String) a 5)
        (← argAt (Option (List String)) a 6)
      pure (toVal r)
  | "make_grid_table" => do
      let r := makeGrid (← coordArrOf (← a[0]?)) (← coordArrOf (← a[1]?)) (← argAt (List Arr2) a 2)
        (← argAt (Option (List Arr2)) a 3) (← argAt (Option (List String)) a 4) (← argAt (String × String) a 5)
        (← argAt (Option (List String)) a 6)
      pure (toVal (r.map gridToTable))
  | "grid_to_table" => do
      let dims ← argAt (String × String) a 0
      let ds : Dataset := ⟨dims, ← argAt (List Rat) a 1, ← argAt (List Rat) a 2,
        ← argAt (List (String × Arr2)) a 3, ← argAt (List (String × Arr2)) a 4⟩
      pure (toVal (gridToTable ds))
  | "to1d" => do
      pure (toVal ((meshgridTo1d (← argAt Arr2 a 0) (← argAt Arr2 a 1) (← argAt (List Arr2) a 2)).map
        fun (p : List Rat × List Rat) => [p.1, p.2]))
  | "from1d" => do
      let m := meshgridFrom1d (← argAt (List Rat) a 0) (← argAt (List Rat) a 1)
      pure (toVal [m.1, m.2])
  | _ => none

def cvLabels (a : List Val) : Option (Except Err (List Nat)) := do
  let es ← argAt (List Rat) a 0
  let ns ← argAt (List Rat) a 1
  let b : BlockSpec := ⟨none, ← argAt (Option (Nat × Nat)) a 2, ← argAt (Option (List Rat)) a 3, .spacing⟩
  if b.shape.isNone && b.spacing.isNone then pure (Except.error Err.valueError)
  else pure ((blockSplit es ns b).map (·.2))

def withTrain (n : Nat) (tests : List (List Nat)) : List (List Nat × List Nat) :=
  tests.map fun t => (complement n t, t)

def opsCV (op : String) (a : List Val) : Option Val :=
  match op with
  | "partition" => do
      pure (toVal (partitionBySum (← argAt (List Nat) a 0) (← argAt Nat a 1)))
  | "kfold" => do
      let labels ← cvLabels a
      let spec : KFoldSpec := ⟨← argAt Nat a 4, ← argAt Bool a 5, ← argAt (Option (List Nat)) a 6⟩
      let r : Except Err (Bool × List (List Nat × List Nat)) := do
        if spec.nSplits < 2 then Except.error Err.valueError
        let ls ← labels
        let (fb, tests) ← blockKFoldTests ls spec
        pure (fb, withTrain ls.length tests)
      pure (toVal r)
  | "shuffle" => do
      let labels ← cvLabels a
      let nSplits ← argAt Nat a 4
      let balancing ← argAt Nat a 5
      let cands? ← argAt (Option (List (List Nat × List Nat))) a 6
      let r : Except Err (List (List Nat × List Nat)) := do
        if balancing < 1 then Except.error Err.valueError
        let ls ← labels
        -- `none`: scikit-learn's ShuffleSplit rejected test_size/train_size for this number of blocks (ValueError)
        let cands ← match cands? with | some c => pure c | none => Except.error Err.valueError
        let tests ← blockShuffleTests ls nSplits balancing cands
        pure (withTrain ls.length tests)
      pure (toVal r)
  | _ => none

def parseScoring : String → Option Scoring
  | "r2" => some .r2 | "neg_mean_squared_error" => some .negMSE | "neg_mean_absolute_error" => some .negMAE | _ => none

instance : ToVal Rows := ⟨fun r => toVal (r.coords, r.data, r.weights)⟩

def rowsAt (a : List Val) (i : Nat) : Option Rows := do
  pure ⟨← argAt (List (List Rat)) a i, ← argAt (List (List Rat)) a (i + 1), ← argAt (Option (List (List Rat))) a (i + 2)⟩

def opsScore (op : String) (a : List Val) : Option Val :=
  match op with
  | "cv_score" => do
      let rows ← rowsAt a 0
      let splits ← argAt (List (List Nat × List Nat)) a 3
      let s ← parseScoring (← argAt String a 4)
      pure (toVal (crossValScore momentEst s rows splits))
  | "tts" => do
      let rows ← rowsAt a 0
      let sp ← argAt (List Nat × List Nat) a 3
      pure (toVal (trainTestSplit rows sp))
  | "splinecv_select" => do
      pure (toVal (splineCVSelect (← argAt (List (List Rat)) a 0)))
  | "metric" => do
      let s ← parseScoring (← argAt String a 0)
      pure (toVal (metric s (← argAt (List Rat) a 1) (← argAt (List Rat) a 2) (← argAt (Option (List Rat)) a 3)))
  | _ => none

def projOpt (v : Val) : Option (Option Proj) :=
  match v with
  | .atom "none" => some none
  | .list [.atom kind, ps] => do let ps ← (fromVal ps : Option (List Rat)); (parseProj kind ps).map some
  | _ => none

def coefsOf (v : Val) : Option (List (Rat × Rat × Rat × Rat)) := do
  let rows ← (fromVal v : Option (List (List Rat)))
  rows.mapM fun r => match r with | [a, b, c, d] => some (a, b, c, d) | _ => none

def coordsOpt (v : Val) : Option (Option (CoordArr × CoordArr × List Arr2)) :=
  match v with
  | .atom "none" => some none
  | .list [e, n, ex] => do pure (some (← coordArrOf e, ← coordArrOf n, ← (fromVal ex : Option (List Arr2))))
  | _ => none

def tableVal (t : Except Err (List (String × List Rat))) : Val := toVal t

def opsGridder (op : String) (a : List Val) : Option Val :=
  match op with
  | "bg_grid" => do
      let coefs ← coefsOf (← a[0]?)
      let args : GridArgs := ⟨← argAt (Option (List Rat)) a 1, ← argAt (Option (List Rat)) a 2,
        ← argAt (Option (Nat × Nat)) a 3, ← argAt (Option (List Rat)) a 4, ← argAt Adjust a 5, ← argAt Bool a 6,
        ← argAt (List Rat) a 7, ← coordsOpt (← a[8]?), ← projOpt (← a[9]?),
        ← argAt (Option (String × String)) a 10, ← argAt (Option (List String)) a 11⟩
      pure (toVal (gridModel (polyPredict coefs) coefs.length args))
  | "bg_profile" => do
      let coefs ← coefsOf (← a[0]?)
      let pr ← projOpt (← a[4]?)
      let pp : Option (Proj × Proj) ← match pr with
        | none => some none
        | some f => (f.inverse?).map fun g => some (f, g)
      pure (tableVal (profileModel (polyPredict coefs) coefs.length (← argAt (Rat × Rat) a 1) (← argAt (Rat × Rat) a 2)
        (← argAt Int a 3) pp (← argAt (List Rat) a 5) (← argAt (Option (String × String)) a 6)
        (← argAt (Option (List String)) a 7)))
  | "bg_scatter" => do
      let coefs ← coefsOf (← a[0]?)
      pure (tableVal (scatterModel (polyPredict coefs) coefs.length (← argAt (Option (List Rat)) a 1)
        (← argAt (Option (List Rat)) a 2) (← argAt (List Rat) a 3) (← argAt (List Rat) a 4) (← argAt (List Rat) a 5)
        (← projOpt (← a[6]?)) (← argAt (Option (String × String)) a 7) (← argAt (Option (List String)) a 8)))
  | _ => none

def opsLinAlg (op : String) (a : List Val) : Option Val :=
  match op with
  | "lstsq" => do
      let J ← argAt Mat a 0
      let d ← argAt Vec a 1
      let w ← argAt (Option Vec) a 2
      let damping ← argAt (Option Rat) a 3
      let n ← argAt Nat a 4
      let ws := w.getD (d.map fun _ => 1)
      let s := (List.range n).map (colScale2 J)
      match leastSquares J d w damping n with
      | none => pure (.atom "singular")
      | some p => pure (toVal (p, normalEqHolds J d ws (damping.getD 0) s p n))
  | "trend_fit" => do
      let es ← argAt Vec a 0
      let ns ← argAt Vec a 1
      let d ← argAt Vec a 2
      let w ← argAt (Option Vec) a 3
      let deg ← argAt Nat a 4
      let qe ← argAt Vec a 5
      let qn ← argAt Vec a 6
      match trendFit es ns d w deg with
      | none => pure (.atom "singular")
      | some c => pure (toVal (c, (qe.zip qn).map fun (x, y) => trendPredict c deg x y))
  | "trend_predict" => do
      let c ← argAt Vec a 0
      let deg ← argAt Nat a 1
      pure (toVal (((← argAt Vec a 2).zip (← argAt Vec a 3)).map fun (x, y) => trendPredict c deg x y))
  | "power_comb" => do
      pure (toVal ((powerCombinations (← argAt Nat a 0)).map fun (i, j) => [i, j]))
  | _ => none

def fv (x : Float) : Val := .atom (floatStr x)
def fAt (a : List Val) (i : Nat) : Option Float := (argAt Rat a i).map ratToFloat
def fPairs (a : List Val) (i : Nat) : Option (List (Float × Float)) :=
  (argAt (List (Rat × Rat)) a i).map fun l => l.map fun p => (ratToFloat p.1, ratToFloat p.2)
def fList (a : List Val) (i : Nat) : Option (List Float) := (argAt (List Rat) a i).map fun l => l.map ratToFloat

def opsKernels (op : String) (a : List Val) : Option Val :=
  match op with
  | "k_greens" => do pure (fv (greens (← fAt a 0) (← fAt a 1) (← fAt a 2)))
  | "k_greens2d" => do
      let g := greens2d (← fAt a 0) (← fAt a 1) (← fAt a 2) (← fAt a 3)
      pure (.list [fv g.1, fv g.2.1, fv g.2.2])
  | "k_checker" => do
      let amp ← fAt a 0; let we ← fAt a 1; let wn ← fAt a 2
      pure (.list (((← fList a 3).zip (← fList a 4)).map fun p => fv (checker amp we wn p.1 p.2)))
  | "k_spline_jac" => do
      pure (.list ((splineJac (← fPairs a 0) (← fPairs a 1) (← fAt a 2)).map fun r => .list (r.map fv)))
  | "k_spline_predict" => do
      pure (.list ((splinePredict (← fPairs a 0) (← fPairs a 1) (← fAt a 2) (← fList a 3)).map fv))
  | "k_vector_jac" => do
      pure (.list ((vectorJac (← fPairs a 0) (← fPairs a 1) (← fAt a 2) (← fAt a 3)).map fun r => .list (r.map fv)))
  | "k_vector_predict" => do
      let r := vectorPredict (← fPairs a 0) (← fPairs a 1) (← fAt a 2) (← fAt a 3) (← fList a 4) (← fList a 5)
      pure (.list [.list (r.map fun p => fv p.1), .list (r.map fun p => fv p.2)])
  | _ => none

def redOf (s : String) : Option Red :=
  match s with
  | "mean" => some .mean | "median" => some .median | "sum" => some .sum | "min" => some .min | "max" => some .max
  | _ => none

def opsNeighbors (op : String) (a : List Val) : Option Val :=
  match op with
  | "knn" => do
      let es ← argAt (List Rat) a 0; let ns ← argAt (List Rat) a 1; let data ← argAt (List Rat) a 2
      let k ← argAt Nat a 3; let red ← redOf (← argAt String a 4)
      let qs ← argAt (List (Rat × Rat)) a 5
      -- predictions plus, per query, the gap between the k-th and (k+1)-th squared distances (tie margin)
      let gaps := qs.map fun q =>
        let s := sortedByDist es ns q
        match s[k - 1]?, s[k]? with
        | some x, some y => some (y.1 - x.1)
        | _, _ => none
      pure (toVal (knnPredict es ns data k red qs, gaps))
  | "median_distance" => do
      pure (toVal (nearestOthersSq (← argAt (List Rat) a 0) (← argAt (List Rat) a 1) (← argAt Nat a 2)))
  | "distance_mask" => do
      let es ← argAt (List Rat) a 0; let ns ← argAt (List Rat) a 1
      let qs ← argAt (List (Rat × Rat)) a 3
      let md ← argAt Rat a 2
      let margins := qs.map fun q => (kNearest es ns q 1).head?.map fun p => p.1 - md * md
      pure (toVal (distanceMask es ns md qs, margins))
  | _ => none

partial def parseSpec (v : Val) : Option StepSpec :=
  match v with
  | .list (.atom "trend" :: d :: []) => do pure (.trend (← fromVal d))
  | .list [.atom "moment"] => some .moment
  | .list [.atom "knn", k, .atom r] => do pure (.knn (← fromVal k) (← redOf r))
  | .list (.atom "block_reduce" :: rest) => do
      let b ← blockSpecAt rest 0
      pure (.blockReduce b ⟨← parseRed (← argAt String rest 4), ← argAt Bool rest 5, ← argAt Bool rest 6⟩)
  | .list (.atom "block_mean" :: rest) => do
      let b ← blockSpecAt rest 0
      pure (.blockMean b (← argAt Bool rest 4) (← argAt Bool rest 5) (← argAt Bool rest 6))
  | .list [.atom "chain", .list ss] => do pure (.chain (← ss.mapM parseSpec))
  | .list [.atom "vector", .list ss] => do pure (.vector (← ss.mapM parseSpec))
  | _ => none

def opsChain (op : String) (a : List Val) : Option Val :=
  match op with
  | "compose" => do
      let spec ← parseSpec (← a[0]?)
      let rows ← rowsAt a 1
      let q ← argAt (List (List Rat)) a 4
      let pred : Except Err Data := do let p ← spec.fitP rows; p q
      let filt : Except Err Rows := do let (r, _) ← spec.toStep.filter rows; pure r
      pure (toVal (pred, filt))
  | _ => none

def tokOf (v : Val) : Option Tok :=
  match v with
  | .atom "bad" => some .bad
  | .list [.atom "f", x] => (fromVal x : Option Rat).map .num      -- a float literal (also when integer valued, e.g. `5.0`)
  | .atom s => match s.toInt? with
    | some n => some (.int n)
    | none => (parseRat? s).map .num
  | _ => none

def toksAt (a : List Val) (i : Nat) : Option (List Tok) :=
  match a[i]? with
  | some (.list xs) => xs.mapM tokOf
  | _ => none

instance : ToVal IOEv := ⟨fun e => .atom (match e with | .open => "open" | .read => "read" | .close => "close")⟩

def opsSurfer (op : String) (a : List Val) : Option Val :=
  match op with
  | "surfer" => do
      let f : SurferFile := ⟨← argAt String a 0, ← toksAt a 1, ← toksAt a 2, ← toksAt a 3, ← toksAt a 4,
        ← argAt (List (List Rat)) a 5, ← argAt Bool a 6, ← argAt Rat a 7⟩
      let (r, tr) := loadSurfer f
      pure (toVal (r.map fun g => (g.shape, g.northing, g.easting, g.values, g.gridId), tr))
  | _ => none

def opsHull (op : String) (a : List Val) : Option Val :=
  match op with
  | "hull_mask" => do
      pure (toVal (convexHullMask (← argAt (List (Rat × Rat)) a 0) (← argAt (List (Rat × Rat)) a 1)))
  | "project_grid_lines" => do
      let r := projectGridLines (← argAt (List Rat) a 0) (← argAt (List Rat) a 1) (← argAt (Nat × Nat) a 2)
        (← argAt (Option (List Rat)) a 3) (← argAt (Option (List Rat)) a 4)
      pure (toVal (r.map fun (p : List Rat × List Rat) => [p.1, p.2]))
  | _ => none

/-- Life cycle of a concrete step description: parameters = the description itself, fitted = its predictor. -/
def specClass : EstClass StepSpec (Except Err Predictor) :=
  plainClass (fun spec r => spec.fitP r) (fun p q => match p with
    | .ok f => (match f q with | .ok d => d | .error _ => [])
    | .error _ => [])

def opsLife (op : String) (a : List Val) : Option Val :=
  match op with
  | "cfi" => do
      pure (toVal ((checkFitInput (← argAt (List Shape) a 0) (← argAt (List Shape) a 1) (← argAt (Option (List Shape)) a 2)).map
        fun _ => "accepted"))
  | "history" => do
      -- ops: [ fit coords data weights ] | [ clone ] | [ predict ] ; final prediction at q (or NotFitted)
      let spec ← parseSpec (← a[0]?)
      let opsV ← (match a[1]? with | some (Val.list l) => some l | _ => none : Option (List Val))
      let q ← argAt (List (List Rat)) a 2
      let ops ← opsV.mapM fun v => match v with
        | .list [.atom "clone"] => some (LifeOp.clone : LifeOp StepSpec)
        | .list [.atom "predict"] => some (LifeOp.predict q)
        | .list [.atom "set_params"] => some (LifeOp.setParams spec)
        | .list (.atom "fit" :: rest) => (rowsAt rest 0).map LifeOp.fit
        | _ => none
      let s := lifeRun specClass ⟨spec, none⟩ ops
      let r : Except Err Data := match s.fitted with
        | none => Except.error Err.notFitted
        | some (Except.error e) => Except.error e
        | some (Except.ok f) => f q
      pure (toVal r)
  | _ => none

def dispatchers : List (String → List Val → Option Val) :=
  [opsCoords, opsBlocks, opsWindows, opsGrid, opsCV, opsScore, opsGridder, opsLinAlg, opsKernels, opsNeighbors, opsChain,
   opsSurfer, opsHull, opsLife]

def runLine (line : String) : String :=
  match Val.parseLine line with
  | some (Val.atom op :: args) =>
    match dispatchers.findSome? (fun d => d op args) with
    | some v => v.render
    | none => "bad-op"
  | _ => "bad-op"

end Verde
